package generic

import (
	"reflect"

	"github.com/mlange-42/arche/ecs"
)

// C20: resources behave as a per-world map from resource type to one value.

func init() {
	vRegister("HC20_Resources", HC20_Resources)
}

type hRa struct{ V int64 }
type hRb struct{ V int32 }
type hRc struct{}
type hRd struct{ P *int64 }

type hCompX struct{ X int64 }
type hCompY struct{ Y int64 }

var hByte = reflect.TypeOf(uint8(0))

func hFillRes(w *ecs.World, n int) {
	for len(ecs.ResourceIDs(w)) < n {
		ecs.ResourceTypeID(w, reflect.ArrayOf(len(ecs.ResourceIDs(w))+1, hByte))
	}
}

const hNRes = 4

type hResModel struct {
	w       ecs.World
	reg     [hNRes]bool
	id      [hNRes]ecs.ResID
	present [hNRes]bool
	pa      *hRa
	pb      *hRb
	pc      *hRc
	pd      *hRd
	locked  bool
	// mappers created once at registration and kept for the whole history
	ra Resource[hRa]
	rd Resource[hRd]
}

// placement of the resource types: IDs 0, 1/17, 63/64, 255 (or 63 in the tiny build)
func hPlace(k int) int {
	last := ecs.MaskTotalBits - 1
	switch k {
	case 0:
		return 0
	case 1:
		return [3]int{1, 17, 16}[vChoice("place1", 3)] // 16: first id of the second 16-id chunk
	case 2:
		if ecs.MaskTotalBits == 64 {
			return [2]int{31, 32}[vChoice("place2", 2)]
		}
		return [2]int{63, 64}[vChoice("place2", 2)]
	default:
		return last
	}
}

func (m *hResModel) register(k int) {
	if m.reg[k] {
		return
	}
	if k > 0 {
		m.register(k - 1) // placements are increasing: register the earlier types first
	}
	w := &m.w
	hFillRes(w, hPlace(k))
	switch k {
	case 0:
		m.id[k] = ecs.ResourceID[hRa](w)
		m.ra = NewResource[hRa](w)
	case 1:
		m.id[k] = ecs.ResourceID[hRb](w)
	case 2:
		m.id[k] = ecs.ResourceID[hRc](w)
	default:
		m.id[k] = ecs.ResourceID[hRd](w)
		m.rd = NewResource[hRd](w)
	}
	m.reg[k] = true
}

func (m *hResModel) ptrEq(k int, got interface{}) bool {
	switch k {
	case 0:
		p, ok := got.(*hRa)
		return ok && p == m.pa
	case 1:
		p, ok := got.(*hRb)
		return ok && p == m.pb
	case 2:
		p, ok := got.(*hRc)
		return ok && p == m.pc
	default:
		p, ok := got.(*hRd)
		return ok && p == m.pd
	}
}

// observe checks Has/Get of every registered type through all three APIs.
func (m *hResModel) observe() {
	w := &m.w
	for k := 0; k < hNRes; k++ {
		if !m.reg[k] {
			continue
		}
		vAssert(w.Resources().Has(m.id[k]) == m.present[k], "Has is true exactly between Add and Remove")
		got := w.Resources().Get(m.id[k])
		if m.present[k] {
			vAssert(m.ptrEq(k, got), "Get returns the exact pointer that was added")
		} else {
			vAssert(got == nil, "Get of an absent resource is nil")
		}
	}
	// generic.Resource and ecs.GetResource on types a (ID 0) and b
	if m.reg[0] {
		var gp *hRa
		pan0, _ := vCatch(func() { gp = m.ra.Get() })
		vAssert(!pan0 && m.ra.Has() == m.present[0], "a long-lived generic.Resource mapper reports Has like the world")
		if m.present[0] {
			vAssert(gp == m.pa, "a long-lived generic.Resource mapper returns the pointer currently stored in the world")
		} else {
			vAssert(gp == nil, "a long-lived generic.Resource mapper returns nil once the resource is gone")
		}
		r := NewResource[hRa](w)
		vAssert(r.ID() == m.id[0], "generic.Resource resolves the same resource ID")
		vAssert(r.Has() == m.present[0], "generic.Resource.Has agrees")
		var g1, g2 *hRa
		pan, _ := vCatch(func() { g1 = r.Get() })
		vAssert(!pan, "generic.Resource.Get does not panic")
		pan, _ = vCatch(func() { g2 = ecs.GetResource[hRa](w) })
		vAssert(!pan, "ecs.GetResource does not panic")
		if m.present[0] {
			vAssert(g1 == m.pa && g2 == m.pa, "generic Get returns the exact pointer")
		} else {
			vAssert(g1 == nil && g2 == nil, "generic Get of an absent resource is nil")
		}
	}
	if m.reg[3] {
		var gp *hRd
		pan0, _ := vCatch(func() { gp = m.rd.Get() })
		vAssert(!pan0 && m.rd.Has() == m.present[3], "a long-lived generic.Resource mapper reports Has like the world (last id)")
		if m.present[3] {
			vAssert(gp == m.pd, "a long-lived generic.Resource mapper returns the pointer currently stored in the world (last id)")
		} else {
			vAssert(gp == nil, "a long-lived generic.Resource mapper returns nil once the resource is gone (last id)")
		}
		r := NewResource[hRd](w)
		var g *hRd
		pan, _ := vCatch(func() { g = r.Get() })
		vAssert(!pan, "generic.Resource.Get does not panic")
		if m.present[3] {
			vAssert(g == m.pd, "generic Get returns the exact pointer")
		} else {
			vAssert(g == nil, "generic Get of an absent resource is nil")
		}
	}
}

func (m *hResModel) add(k int, api int) {
	w := &m.w
	m.register(k)
	legal := !m.present[k]
	var pan bool
	switch k {
	case 0:
		p := &hRa{V: int64(vU64("val"))}
		switch api {
		case 0:
			pan, _ = vCatch(func() { w.Resources().Add(m.id[k], p) })
		case 1:
			pan, _ = vCatch(func() { m.ra.Add(p) })
		default:
			pan, _ = vCatch(func() { ecs.AddResource(w, p) })
		}
		if !pan {
			m.pa = p
		}
	case 1:
		p := &hRb{}
		if api == 1 {
			r := NewResource[hRb](w)
			pan, _ = vCatch(func() { r.Add(p) })
		} else {
			pan, _ = vCatch(func() { w.Resources().Add(m.id[k], p) })
		}
		if !pan {
			m.pb = p
		}
	case 2:
		p := &hRc{}
		pan, _ = vCatch(func() { w.Resources().Add(m.id[k], p) })
		if !pan {
			m.pc = p
		}
	default:
		p := &hRd{}
		if api == 2 {
			pan, _ = vCatch(func() { ecs.AddResource(w, p) })
		} else {
			pan, _ = vCatch(func() { w.Resources().Add(m.id[k], p) })
		}
		if !pan {
			m.pd = p
		}
	}
	vAssert(pan == !legal, "Add panics exactly when the resource is already present")
	if !pan {
		m.present[k] = true
	}
}

func (m *hResModel) remove(k int, api int) {
	w := &m.w
	m.register(k)
	legal := m.present[k]
	var pan bool
	if api == 1 && k == 0 {
		r := NewResource[hRa](w)
		pan, _ = vCatch(func() { r.Remove() })
	} else {
		pan, _ = vCatch(func() { w.Resources().Remove(m.id[k]) })
	}
	vAssert(pan == !legal, "Remove panics exactly when the resource is absent")
	if !pan {
		m.present[k] = false
	}
}

func HC20_Resources() {
	m := &hResModel{w: ecs.NewWorld(ecs.NewConfig().WithCapacityIncrement(1 + vChoice("capinc", 2)))}
	w := &m.w
	cx := ecs.ComponentID[hCompX](w)
	var ents [4]ecs.Entity
	ne := 0
	var q ecs.Query
	steps := 2 + vTier()
	for s := 0; s < steps; s++ {
		switch vChoice("op", 7) {
		case 0:
			m.add(vChoice("res", hNRes), vChoice("api", 3))
		case 1:
			m.remove(vChoice("res", hNRes), vChoice("api", 2))
		case 2: // register a further type (crosses chunk / word boundaries with the fillers)
			m.register(vChoice("res", hNRes))
		case 3: // entity operations and component registration do not interfere
			vAssume(!m.locked && ne < 4)
			ents[ne] = w.NewEntity(cx)
			ne++
			ecs.ComponentID[hCompY](w)
		case 4:
			vAssume(!m.locked && ne > 0)
			ne--
			w.RemoveEntity(ents[ne])
		case 5: // lock / unlock the world
			if m.locked {
				q.Close()
				m.locked = false
			} else {
				all := ecs.All()
				q = w.Query(&all)
				m.locked = true
			}
		default: // Reset clears every resource
			vAssume(!m.locked)
			w.Reset()
			ne = 0
			for k := 0; k < hNRes; k++ {
				m.present[k] = false
			}
			// a type registered before the Reset is added again through the type-based API:
			// the ID-based API must see it under the ID handed out before the Reset
			for _, k := range [3]int{3, 1, 0} {
				if m.reg[k] {
					api := 2
					if k == 1 {
						api = 1
					}
					m.add(k, api)
					break
				}
			}
		}
		m.observe()
	}
	// a second world that registers the resource types in another order is independent
	{
		w2 := ecs.NewWorld()
		rb2 := NewResource[hRb](&w2)
		ra2 := NewResource[hRa](&w2)
		vAssert(rb2.ID() == ecs.ResourceID[hRb](&w2) && ra2.ID() == ecs.ResourceID[hRa](&w2), "generic.Resource resolves the resource ID of its own world")
		vAssert(!rb2.Has() && !ra2.Has(), "resources of one world are not visible in another")
		pb := &hRb{V: 5}
		rb2.Add(pb)
		vAssert(ecs.GetResource[hRb](&w2) == pb && rb2.Get() == pb && !ra2.Has(), "a resource added through generic.Resource is the one the world reports")
		vAssert(ecs.GetResource[hRa](&w2) == nil, "Get of an absent resource is nil")
	}
	// resource ids are independent of component ids
	vAssert(len(ecs.ComponentIDs(w)) <= 2, "resource registrations do not consume component ids")
	vReach("end")
}
