package generic

import "github.com/mlange-42/arche/ecs"

// Translator validation for the generic package: a concrete scenario whose log
// must be identical in the engine and natively.

func init() { vRegister("HConf_Generic", HConf_Generic) }

func HConf_Generic() {
	w := ecs.NewWorld(ecs.NewConfig().WithCapacityIncrement(2))
	m := NewMap2[hX, hY](&w)
	mr := NewMap2[hRel, hZ](&w, T[hRel]())
	p := w.NewEntity()
	e1 := m.New()
	e2 := m.NewWith(&hX{3}, &hY{4})
	m.NewBatch(3)
	c1 := mr.New(p)
	mr.NewBatch(2, p)
	vLog("e1", uint64(e1.ID()))
	vLog("e2", uint64(e2.ID()))
	vLog("c1", uint64(c1.ID()))
	x, y := m.Get(e2)
	vLog("x", uint64(x.V))
	vLog("y", uint64(y.V))
	f := NewFilter2[hX, hY]()
	q := f.Query(&w)
	vLog("count", uint64(q.Count()))
	for q.Next() {
		a, b := q.Get()
		vLog("q.e", uint64(q.Entity().ID()))
		vLog("q.x", uint64(a.V))
		vLog("q.y", uint64(b.V))
	}
	fr := NewFilter1[hRel]().WithRelation(T[hRel](), p)
	fr.Register(&w)
	qr := fr.Query(&w)
	vLog("rcount", uint64(qr.Count()))
	for qr.Next() {
		vLog("r.e", uint64(qr.Entity().ID()))
		vLog("r.t", uint64(qr.Relation().ID()))
	}
	fo := NewFilter2[hX, hY]().Optional(T[hY]()).Without(T[hZ]())
	ex := NewExchange(&w).Adds(T1[hZ]()...).Removes(T1[hY]()...)
	ex.Exchange(e1)
	qo := fo.Query(&w)
	vLog("ocount", uint64(qo.Count()))
	qo.Close()
	r := NewResource[hX](&w)
	vLogB("has", r.Has())
	r.Add(&hX{9})
	vLog("res", uint64(r.Get().V))
	mm := NewMap[hRel](&w)
	mm.SetRelation(c1, ecs.Entity{})
	vLog("tgt", uint64(mm.GetRelation(c1).ID()))
	vLog("removed", uint64(m.RemoveEntities(false)))
	vLogB("locked", w.IsLocked())
	vReach("end")
}
