package generic

import "github.com/mlange-42/arche/ecs"

// C09 (generic entry points): every structural call of the generic API is
// refused on a locked world with the lock message and succeeds after release.

func init() { vRegister("HC09_Generic", HC09_Generic) }

const hLockMsg = "attempt to modify a locked world"

func HC09_Generic() {
	b := hBuildWorld()
	w := &b.w
	m1 := NewMap1[hX](w)
	m2 := NewMap2[hY, hZ](w)
	mr := NewMap2[hRel, hZ](w, T[hRel]())
	mp := NewMap[hRel](w)
	ex := NewExchange(w).Adds(T1[hZ]()...).Removes(T1[hX]()...)
	onlyX := ecs.All(b.ids[0]).Exclusive()
	k := vChoice("entry", 23)
	call := func() {
		switch k {
		case 0:
			m1.New()
		case 1:
			m1.NewWith(&hX{1})
		case 2:
			m1.NewBatch(2)
		case 3:
			q := m1.NewBatchQ(2)
			q.Close()
		case 4:
			m2.Add(b.ents[0])
		case 5:
			m2.Assign(b.ents[0], &hY{1}, &hZ{2})
		case 6:
			m1.Remove(b.ents[0])
		case 7:
			m2.AddBatch(&onlyX)
		case 8:
			q := m2.AddBatchQ(&onlyX)
			q.Close()
		case 9:
			m1.RemoveBatch(&onlyX)
		case 10:
			q := m1.RemoveBatchQ(&onlyX)
			q.Close()
		case 11:
			m1.RemoveEntities(true)
		case 12:
			mr.New(b.p1)
		case 13:
			mr.NewBatch(2, b.p1)
		case 14:
			mr.Add(b.ents[0], b.p2)
		case 15:
			mp.SetRelation(b.ents[4], b.p2)
		case 16:
			rf := ecs.All(b.ids[3])
			mp.SetRelationBatch(&rf, b.p2)
		case 17:
			ex.Exchange(b.ents[0])
		case 18:
			ex.NewEntity()
		case 19:
			ex.ExchangeBatch(&onlyX)
		case 20: // re-target to the current target: still a structural call
			mp.SetRelation(b.ents[4], b.p1)
		case 21:
			rf := ecs.NewRelationFilter(ecs.All(b.ids[3]), b.p1)
			mp.SetRelationBatch(&rf, b.p1)
		default: // an exchange that adds and removes nothing
			NewExchange(w).Exchange(b.ents[0])
		}
	}
	f := NewFilter1[hX]()
	if vChoice("registered", 2) == 1 {
		f.Register(w)
	}
	q := f.Query(w)
	if vChoice("advanced", 2) == 1 {
		q.Next()
	}
	vAssert(w.IsLocked(), "a generic query locks the world")
	pan, msg := vCatch(call)
	vAssert(pan && msg == hLockMsg, "generic structural entry point panics with the lock message on a locked world")
	vAssert(w.IsLocked(), "a refused call leaves the lock held")
	// nothing changed: every entity still has its component set
	for i := 0; i < b.n; i++ {
		vAssert(w.Alive(b.ents[i]), "a refused call changes nothing")
		mk := w.Mask(b.ents[i])
		cnt := 0
		for c := 0; c < 4; c++ {
			if b.sets[i]&(1<<c) != 0 {
				cnt++
				vAssert(mk.Get(b.ids[c]), "a refused call changes nothing")
			}
		}
		vAssert(mk.TotalBitsSet() == cnt, "a refused call changes nothing")
	}
	switch vChoice("release", 3) {
	case 0:
		for q.Next() {
		}
	case 1:
		q.Close()
	default:
		q.Count()
		q.Close()
	}
	vAssert(!w.IsLocked(), "closing the generic query unlocks the world")
	pan, _ = vCatch(call)
	vAssert(!pan, "the generic entry point succeeds once the world is unlocked")
	vAssert(!w.IsLocked(), "world is unlocked after the call")
	vReach("end")
}
