package generic

import (
	"reflect"

	"github.com/mlange-42/arche/ecs"
)

// C18: the generic API is a faithful typed view of the ID-based core.
// Per-arity harnesses are generated (h_c18_gen.go); this file holds the
// filter-builder, relation, Map/Exchange harnesses.

func init() {
	vRegister("HC18_Builders", HC18_Builders)
	vRegister("HC18_MapExchange", HC18_MapExchange)
}

func hBits(m ecs.Mask) int                    { return m.TotalBitsSet() }
func hContains(m ecs.Mask, o *ecs.Mask) bool { return m.Contains(o) }

func hFillComp(w *ecs.World, n int) {
	for len(ecs.ComponentIDs(w)) < n {
		ecs.TypeID(w, reflect.ArrayOf(len(ecs.ComponentIDs(w))+1, hByte))
	}
}

type hX struct{ V int64 }
type hY struct{ V int64 }
type hZ struct{ V int64 }
type hRel struct {
	ecs.Relation
	V int64
}

// filter configuration model
type hCfg struct {
	with, without, optional uint8 // bitsets over {X,Y,Z,Rel} = bits 0..3
	exclusive               bool
	hasRel                  bool
	fixedTarget             bool
	target                  ecs.Entity
}

const (
	bX = 1 << iota
	bY
	bZ
	bR
)

// hSelects: the documented selection for configuration c and type parameters tp.
func (c *hCfg) selects(tp uint8, set uint8, tgt ecs.Entity, runtimeTarget bool, rt ecs.Entity) bool {
	include := (tp | c.with) &^ c.optional
	if set&include != include {
		return false
	}
	if c.exclusive {
		if set != include {
			return false
		}
	} else if set&c.without != 0 {
		return false
	}
	if c.hasRel && c.fixedTarget {
		return tgt == c.target
	}
	if c.hasRel && runtimeTarget {
		return tgt == rt
	}
	return true
}

type hBWorld struct {
	w    ecs.World
	ids  [4]ecs.ID
	ents [10]ecs.Entity
	sets [10]uint8
	tgts [10]ecs.Entity
	n    int
	p1   ecs.Entity
	p2   ecs.Entity
}

func hBuildWorld() *hBWorld {
	b := &hBWorld{w: ecs.NewWorld(ecs.NewConfig().WithCapacityIncrement(2))}
	w := &b.w
	b.ids = [4]ecs.ID{ecs.ComponentID[hX](w), ecs.ComponentID[hY](w), ecs.ComponentID[hZ](w), ecs.ComponentID[hRel](w)}
	b.p1 = w.NewEntity()
	b.p2 = w.NewEntity()
	add := func(set uint8, tgt ecs.Entity) {
		var l []ecs.ID
		for k := 0; k < 4; k++ {
			if set&(1<<k) != 0 {
				l = append(l, b.ids[k])
			}
		}
		var e ecs.Entity
		if set&bR != 0 {
			e = ecs.NewBuilder(w, l...).WithRelation(b.ids[3]).New(tgt)
		} else {
			e = w.NewEntity(l...)
		}
		b.ents[b.n], b.sets[b.n], b.tgts[b.n] = e, set, tgt
		b.n++
	}
	add(bX, ecs.Entity{})
	add(bX|bY, ecs.Entity{})
	add(bX|bZ, ecs.Entity{})
	add(bX|bY|bZ, ecs.Entity{})
	add(bX|bR, b.p1)
	add(bX|bR, b.p2)
	add(bX|bY|bR, b.p1)
	add(bX|bR, ecs.Entity{})
	add(bY, ecs.Entity{})
	return b
}

// compare the entities a generic query visits with the model selection
func (b *hBWorld) expect(q *ecs.Query, c *hCfg, tp uint8, runtimeTarget bool, rt ecs.Entity) {
	var seen [10]bool
	for q.Next() {
		e := q.Entity()
		idx := -1
		for i := 0; i < b.n; i++ {
			if b.ents[i] == e {
				idx = i
			}
		}
		if idx < 0 {
			vAssert(e == b.p1 || e == b.p2, "generic query visits only world entities")
			vAssert(c.selects(tp, 0, ecs.Entity{}, runtimeTarget, rt), "generic filter selects per its configuration")
			continue
		}
		vAssert(!seen[idx], "generic query visits no entity twice")
		seen[idx] = true
		vAssert(c.selects(tp, b.sets[idx], b.tgts[idx], runtimeTarget, rt), "generic filter selects only entities matching its configuration at query time")
	}
	for i := 0; i < b.n; i++ {
		vAssert(seen[i] == c.selects(tp, b.sets[i], b.tgts[i], runtimeTarget, rt), "generic filter selects every entity matching its configuration at query time")
	}
}

// HC18_Builders: symbolic sequences of builder calls interleaved with uses on Filter0 / Filter1 / Filter2.
func HC18_Builders() {
	b := hBuildWorld()
	w := &b.w
	comps := [4]Comp{T[hX](), T[hY](), T[hZ](), T[hRel]()}
	arity := vChoice("arity", 3)
	f0, f1, f2 := NewFilter0(), NewFilter1[hX](), NewFilter2[hX, hY]()
	tp := [3]uint8{0, bX, bX | bY}[arity]
	var c hCfg
	steps := 3 + vTier()
	registered := false
	for s := 0; s < steps; s++ {
		op := vChoice("step", 7)
		switch op {
		case 0: // With
			k := vChoice("comp", 3)
			vAssume(!registered)
			switch arity {
			case 0:
				f0.With(comps[k])
			case 1:
				f1.With(comps[k])
			default:
				f2.With(comps[k])
			}
			c.with |= 1 << k
		case 1: // Without
			k := 1 + vChoice("comp", 2)
			vAssume(!registered && !c.exclusive)
			switch arity {
			case 0:
				f0.Without(comps[k])
			case 1:
				f1.Without(comps[k])
			default:
				f2.Without(comps[k])
			}
			c.without |= 1 << k
		case 2: // Optional (a type parameter)
			vAssume(!registered && arity > 0)
			k := 0
			if arity == 2 {
				k = vChoice("comp", 2)
			}
			if arity == 1 {
				f1.Optional(comps[k])
			} else {
				f2.Optional(comps[k])
			}
			c.optional |= 1 << k
		case 3: // Exclusive
			vAssume(!registered && c.without == 0)
			switch arity {
			case 0:
				f0.Exclusive()
			case 1:
				f1.Exclusive()
			default:
				f2.Exclusive()
			}
			c.exclusive = true
		case 4: // WithRelation, fixed target or open
			vAssume(!registered)
			fixed := vChoice("fixed", 2) == 1
			tgt := [3]ecs.Entity{{}, b.p1, b.p2}[vChoice("target", 3)]
			switch arity {
			case 0:
				if fixed {
					f0.With(comps[3]).WithRelation(comps[3], tgt)
				} else {
					f0.With(comps[3]).WithRelation(comps[3])
				}
			case 1:
				if fixed {
					f1.With(comps[3]).WithRelation(comps[3], tgt)
				} else {
					f1.With(comps[3]).WithRelation(comps[3])
				}
			default:
				if fixed {
					f2.With(comps[3]).WithRelation(comps[3], tgt)
				} else {
					f2.With(comps[3]).WithRelation(comps[3])
				}
			}
			c.with |= bR
			c.hasRel = true
			if fixed {
				c.fixedTarget, c.target = true, tgt
			}
		case 5: // use: build a query now and compare with the configuration as of now
			rtUse := c.hasRel && !c.fixedTarget && !registered && vChoice("runtime-target", 2) == 1
			rt := [2]ecs.Entity{b.p1, b.p2}[vChoice("rt", 2)]
			var q ecs.Query
			switch arity {
			case 0:
				if rtUse {
					q = f0.Query(w, rt).Query
				} else {
					q = f0.Query(w).Query
				}
			case 1:
				if rtUse {
					q = f1.Query(w, rt).Query
				} else {
					q = f1.Query(w).Query
				}
			default:
				if rtUse {
					q = f2.Query(w, rt).Query
				} else {
					q = f2.Query(w).Query
				}
			}
			b.expect(&q, &c, tp, rtUse, rt)
		default: // register / unregister
			if registered {
				switch arity {
				case 0:
					f0.Unregister(w)
				case 1:
					f1.Unregister(w)
				default:
					f2.Unregister(w)
				}
			} else {
				switch arity {
				case 0:
					f0.Register(w)
				case 1:
					f1.Register(w)
				default:
					f2.Register(w)
				}
			}
			registered = !registered
		}
	}
	// final use
	var q ecs.Query
	switch arity {
	case 0:
		q = f0.Query(w).Query
	case 1:
		q = f1.Query(w).Query
	default:
		q = f2.Query(w).Query
	}
	b.expect(&q, &c, tp, false, ecs.Entity{})
	vReach("end")
}

// HC18_MapExchange: Map[T], Exchange and relation-aware MapN against the core calls.
func HC18_MapExchange() {
	b := hBuildWorld()
	w := &b.w
	mx := NewMap[hX](w)
	mr := NewMap[hRel](w)
	vAssert(mx.ID() == b.ids[0] && mr.ID() == b.ids[3], "Map resolves the component ID of its type")
	i := vChoice("ent", b.n)
	e := b.ents[i]
	vAssert(mx.Has(e) == (b.sets[i]&bX != 0), "Map.Has equals World.Has")
	if b.sets[i]&bX != 0 {
		v := int64(vU64("val"))
		p := mx.Set(e, &hX{v})
		vAssert((*hX)(w.Get(e, b.ids[0])).V == v && p == mx.Get(e), "Map.Set / Get address the declared component")
	}
	if b.sets[i]&bR != 0 {
		vAssert(mr.GetRelation(e) == b.tgts[i], "Map.GetRelation equals Relations.Get")
		mr.SetRelation(e, b.p2)
		vAssert(w.Relations().Get(e, b.ids[3]) == b.p2, "Map.SetRelation equals Relations.Set")
	}
	// relation-aware Map2: New(target) / Add(e, target) / Remove
	m2 := NewMap2[hRel, hZ](w, T[hRel]())
	c1 := m2.New(b.p1)
	vAssert(w.Relations().Get(c1, b.ids[3]) == b.p1 && w.Has(c1, b.ids[2]), "MapN.New(target) sets the relation target")
	e0 := w.NewEntity(b.ids[0])
	m2.Add(e0, b.p2)
	vAssert(w.Relations().Get(e0, b.ids[3]) == b.p2 && w.Has(e0, b.ids[2]) && w.Has(e0, b.ids[0]), "MapN.Add(e, target) adds the components with the target")
	m2.Remove(e0)
	vAssert(!w.Has(e0, b.ids[3]) && !w.Has(e0, b.ids[2]) && w.Has(e0, b.ids[0]), "MapN.Remove removes the components")
	// Exchange: adds Y,Z removes X
	ex := NewExchange(w).Adds(T2[hY, hZ]()...).Removes(T1[hX]()...)
	e1 := w.NewEntity(b.ids[0])
	ex.Exchange(e1)
	want := ecs.All(b.ids[1], b.ids[2])
	vAssert(w.Mask(e1) == want, "Exchange.Exchange adds and removes the configured components")
	e2 := ex.NewEntity()
	vAssert(w.Mask(e2) == want, "Exchange.NewEntity creates the added components")
	e3 := w.NewEntity(b.ids[0])
	ex.Add(e3)
	all3 := ecs.All(b.ids[0], b.ids[1], b.ids[2])
	vAssert(w.Mask(e3) == all3, "Exchange.Add adds the configured components")
	ex2 := NewExchange(w).Removes(T2[hY, hZ]()...)
	ex2.Remove(e3)
	onlyX := ecs.All(b.ids[0])
	vAssert(w.Mask(e3) == onlyX, "Exchange.Remove removes the configured components")
	vReach("end")
}

func init() { vRegister("HC18_Exchange", HC18_Exchange) }

// HC18_Exchange: every method of generic.Exchange, with and without a relation
// target, against the masks and targets the configuration declares.
func HC18_Exchange() {
	b := hBuildWorld()
	w := &b.w
	idX, idY, idZ, idR := b.ids[0], b.ids[1], b.ids[2], b.ids[3]
	var ex *Exchange
	switch vChoice("order", 3) { // the configuration calls commute
	case 0:
		ex = NewExchange(w).Adds(T2[hRel, hZ]()...).Removes(T2[hX, hY]()...).WithRelation(T[hRel]())
	case 1:
		ex = NewExchange(w).WithRelation(T[hRel]()).Adds(T2[hRel, hZ]()...).Removes(T2[hX, hY]()...)
	default:
		ex = NewExchange(w).Removes(T2[hX, hY]()...).WithRelation(T[hRel]()).Adds(T2[hRel, hZ]()...)
	}
	withT := vChoice("target", 2) == 1
	tgt := ecs.Entity{}
	var targs []ecs.Entity
	if withT {
		tgt = [2]ecs.Entity{b.p1, b.p2}[vChoice("which", 2)]
		targs = []ecs.Entity{tgt}
	}
	added := ecs.All(idR, idZ)
	switch vChoice("method", 5) {
	case 0:
		e := ex.NewEntity(targs...)
		vAssert(w.Mask(e) == added && w.Relations().Get(e, idR) == tgt, "Exchange.NewEntity creates the added components with the target")
	case 1:
		e := w.NewEntity(idX)
		ex.Add(e, targs...)
		vAssert(w.Mask(e) == ecs.All(idX, idR, idZ) && w.Relations().Get(e, idR) == tgt, "Exchange.Add adds the configured components with the target")
	case 2:
		e := w.NewEntity(idX, idY, idR)
		ex.Remove(e, targs...)
		vAssert(w.Mask(e) == ecs.All(idR) && w.Relations().Get(e, idR) == tgt, "Exchange.Remove removes the configured components and sets the target")
	case 3:
		e := w.NewEntity(idX, idY)
		ex.Exchange(e, targs...)
		vAssert(w.Mask(e) == added && w.Relations().Get(e, idR) == tgt, "Exchange.Exchange adds and removes the configured components with the target")
	default:
		idQ := ecs.ComponentID[hTQ](w)
		e1, e2 := w.NewEntity(idX, idY, idQ), w.NewEntity(idX, idY, idQ)
		other := w.NewEntity(idX, idY)
		fq := ecs.All(idQ)
		n := ex.ExchangeBatch(&fq, targs...)
		want := ecs.All(idR, idZ, idQ)
		vAssert(n == 2, "Exchange.ExchangeBatch returns the number of affected entities")
		vAssert(w.Mask(e1) == want && w.Mask(e2) == want, "Exchange.ExchangeBatch adds and removes the configured components")
		vAssert(w.Relations().Get(e1, idR) == tgt && w.Relations().Get(e2, idR) == tgt, "Exchange.ExchangeBatch sets the target")
		vAssert(w.Mask(other) == ecs.All(idX, idY), "Exchange.ExchangeBatch leaves other entities alone")
	}
	vReach("end")
}

type hTQ struct{ V int32 }

func init() { vRegister("HC18_TwoQueries", HC18_TwoQueries) }

// HC18_TwoQueries: two queries built from one FilterN with different runtime
// relation targets are open at the same time; each must select per the target
// given when it was built.
func HC18_TwoQueries() {
	b := hBuildWorld()
	w := &b.w
	f := NewFilter1[hX]().With(T[hRel]()).WithRelation(T[hRel]())
	q1 := f.Query(w, b.p1)
	q2 := f.Query(w, b.p2)
	c := hCfg{with: bR, hasRel: true}
	b.expect(&q1.Query, &c, bX, true, b.p1)
	b.expect(&q2.Query, &c, bX, true, b.p2)
	vReach("end")
}
