//go:build tiny

package ecs

// Reference view of a Mask as a set of IDs (tiny build: 64 bits).

const hMaskBits = 64

func vMask(name string) Mask {
	return Mask{bits: vU64(name + ".w0")}
}

// hBit is the specification of membership: bit j of the 64-bit value (j < 64).
func hBit(m *Mask, j uint8) bool {
	return (m.bits>>(j&63))&1 == 1
}

func hIDInRange(j uint8) bool { return j < 64 }

// hSetBit ors bit id into m without branching on v.
func hSetBit(m *Mask, id uint8, v bool) { m.bits |= vB2U(v) << (id & 63) }
