package ecs

// C08: batch operations equal the single-entity operations applied one by one.
// The reference model applies the documented single-entity effect to every
// entity that matches the filter at call time; the world must agree afterwards
// on every observable (this harness also serves C01 for batch moves).

func init() {
	vRegister("HC08_Batch", HC08_Batch)
}

// pickFilter chooses a filter kind and (for relation filters) a target.
func (x *hW) pickFilter(name string) (int, Entity) {
	nf := fR1 + 1
	if x.nu > uR1 {
		nf = hNFilters
	}
	f := vChoice(name, nf)
	t := Entity{}
	if f >= fRelT {
		t = x.pickTarget(name + ".tgt") // any issued handle or zero
	}
	return f, t
}

// pickBatchXchg chooses (add, rem) legal for every entity matching (f,t), with at least one match.
func (x *hW) pickBatchXchg(f int, t Entity, needRel bool) (uint8, uint8) {
	var adds, rems [4096]uint8
	n := 0
	_, m := x.matching(f, t)
	vAssume(m >= 1)
	lim := 1 << x.nu
	for add := 0; add < lim; add++ {
		for rem := 0; rem < lim; rem++ {
			if add|rem == 0 {
				continue
			}
			if vTier() == 0 && hPop(uint8(add))+hPop(uint8(rem)) > 2 {
				continue // quick tier: at most two components change
			}
			ok, _ := x.batchLegal(f, t, uint8(add), uint8(rem))
			if !ok {
				continue
			}
			if needRel {
				// the relation must be present in every result
				all := true
				for j := 0; j < x.n; j++ {
					if x.modelMatch(j, f, t) && hRelOf((x.set[j]&^uint8(rem))|uint8(add)) < 0 {
						all = false
					}
				}
				if !all {
					continue
				}
			}
			adds[n], rems[n] = uint8(add), uint8(rem)
			n++
		}
	}
	k := vChoice("bxchg", n)
	return adds[k], rems[k]
}

const hNBatchOps = 5

func (x *hW) batchStep(op int) {
	switch op {
	case 0: // Batch.Add / Remove / Exchange (+Q)
		f, t := x.pickFilter("filter")
		b := x.mkFilter(f, t)
		add, rem := x.pickBatchXchg(f, t, false)
		api := 0
		if rem == 0 {
			api = 1
		} else if add == 0 {
			api = 2
		}
		x.opBatchExchange(b.f, f, t, add, rem, api, vChoice("q", 2) == 1, -1, Entity{})
	case 1: // Relations.ExchangeBatch (+Q)
		f, t := x.pickFilter("filter")
		b := x.mkFilter(f, t)
		add, rem := x.pickBatchXchg(f, t, true)
		// the common relation of all results
		rel := -1
		for j := 0; j < x.n; j++ {
			if x.modelMatch(j, f, t) {
				r := hRelOf((x.set[j] &^ rem) | add)
				vAssume(rel < 0 || rel == r)
				rel = r
			}
		}
		x.opBatchExchange(b.f, f, t, add, rem, 0, vChoice("q", 2) == 1, rel, x.pickOKTarget("newtgt"))
	case 2: // SetRelation (4 API variants)
		f, t := x.pickFilter("filter")
		vAssume(f >= fR1)
		b := x.mkFilter(f, t)
		_, m := x.matching(f, t)
		vAssume(m >= 1)
		if vChoice("registered", 2) == 1 {
			cf := x.w.Cache().Register(b.f)
			x.opBatchSetRelation(&cf, f, t, uR1, x.pickOKTarget("newtgt"), vChoice("q", 2) == 1, vChoice("via", 2) == 1)
			x.w.Cache().Unregister(&cf)
		} else {
			x.opBatchSetRelation(b.f, f, t, uR1, x.pickOKTarget("newtgt"), vChoice("q", 2) == 1, vChoice("via", 2) == 1)
		}
	case 3: // RemoveEntities, through the plain filter or through its registration
		f, t := x.pickFilter("filter")
		b := x.mkFilter(f, t)
		if vChoice("registered", 2) == 1 {
			cf := x.w.Cache().Register(b.f)
			x.opRemoveEntities(&cf, f, t)
			x.w.Cache().Unregister(&cf)
		} else {
			x.opRemoveEntities(b.f, f, t)
		}
	case 4: // NewBatch / NewBatchQ
		cnt := int(vU8("count"))
		vAssume(cnt >= 1 && cnt <= 3)
		vAssume(x.n+cnt <= hMaxH)
		var s uint8
		if vTier() == 0 {
			sets := [7]uint8{0, 1 << uA, 1<<uA | 1<<uB, 1 << uR1, 1<<uA | 1<<uR1, 1<<uA | 1<<uR2, 1<<uC | 1<<uZ}
			s = sets[vChoice("set", 7)]
		} else {
			s = x.pickLegalSet("set", -1)
		}
		r := hRelOf(s)
		withT := false
		t := Entity{}
		if r >= 0 && vChoice("withtarget", 2) == 1 {
			withT = true
			t = x.pickOKTarget("tgt")
		}
		x.opNewBatch(s, cnt, r, withT, t, vChoice("withcomps", 2) == 1, vChoice("q", 2) == 1)
	}
}

func HC08_Batch() {
	prof, capInc, relInc := hConfig()
	x := hNew(prof, 6, capInc, relInc)
	x.prefix(vChoice("prefix", hNPrefix))
	x.batchStep(vChoice("op", hNBatchOps))
	x.check()
	x.inv()
	x.checkQueries(true)
	vReach("end")
}

func hPop(s uint8) int {
	n := 0
	for k := 0; k < 8; k++ {
		if s&(1<<k) != 0 {
			n++
		}
	}
	return n
}
