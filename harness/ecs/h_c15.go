package ecs

import "github.com/mlange-42/arche/ecs/event"

// C15: Reset returns the world to the behaviour of a fresh one.
// The reference model after Reset is the model of a fresh world (no entities,
// handle sequence restarting at {1,0}); registered filters, component IDs and
// the listener stay installed.

func init() {
	vRegister("HC15_Reset", HC15_Reset)
}

type hRes1 struct{ V int }
type hRes2 struct{ V int }

func HC15_Reset() {
	prof, capInc, relInc := hConfig2()
	x := hNew(prof, 6, capInc, relInc)
	// a filter registered before the history
	fsel := vChoice("f1", 5)
	f1 := [5]int{fA, fR1, fRelT, fRelT, fRelOnlyA}[fsel]
	t1 := Entity{}
	if fsel == 3 {
		t1 = Entity{1, 0} // the first handle a world issues (again after each reset)
	}
	b1 := x.mkFilter7(f1, t1)
	cf1 := x.w.Cache().Register(b1.f)
	pf := [6]int{1, 3, 4, 5, 6, 8}[vChoice("prefix", 6)]
	x.prefix(pf)
	r1 := ResourceID[hRes1](&x.w)
	r2 := ResourceID[hRes2](&x.w)
	x.w.Resources().Add(r1, &hRes1{1})
	// history variants right before the reset
	nbefore := 2
	if pf == 1 || pf == 6 {
		nbefore = 3
	}
	switch [3]int{0, 2, 1}[vChoice("before", nbefore)] {
	case 1: // every entity removed one by one (free list, no live entity)
		for j := 0; j < x.n; j++ {
			if x.alive[j] {
				x.opRemoveEntity(j)
			}
		}
	case 2: // a query was opened and closed
		m := All()
		q := x.w.Query(&m)
		q.Next()
		q.Close()
	}
	cycles := 1 + vTier()
	for c := 0; c < cycles; c++ {
		x.opReset()
		vAssert(!x.w.IsLocked(), "a reset world is unlocked")
		vAssert(!x.w.Resources().Has(r1) && !x.w.Resources().Has(r2), "a reset world has no resources")
		vAssert(x.w.Resources().Get(r1) == nil, "a reset world has no resources")
		m := All()
		q := x.w.Query(&m)
		vAssert(q.Count() == 0, "a reset world has no entities")
		q.Close()
		x.sameSelection(&cf1, b1.f)
		x.inv()
		// from here on: behaviour of a fresh world (model restarted), listener recording
		rec := &hRec{x: x, subs: event.All}
		x.w.SetListener(rec)
		x.rec = rec
		steps := 2 - c // the second cycle is followed by one fixed-argument operation
		for s := 0; s < steps; s++ {
			rec.n = 0
			before := x.snap()
			wasReset := false
			if s == 0 && c == 0 {
				if vChoice("family", 2) == 0 {
					x.cacheStep(vChoice("op", 2), &cf1, b1.f, f1, t1)
				} else {
					x.legalStepSmall([2]int{0, 2}[vChoice("lop", 2)])
				}
			} else {
				// second step: fixed arguments
				op2 := vChoice("op2", 5)
				// the operations that address an existing entity need one in the restarted model
				// (after the second reset the model is empty: slots of the arrays are stale there)
				vAssume(op2 == 0 || op2 == 2 || x.n > 0)
				switch op2 {
				case 0:
					x.opNewEntityWith(1 << uA)
				case 1:
					x.opBuilderNew(1<<uA|1<<uR1, uR1, true, x.h[0], false)
				case 2:
					x.opBuilderNew(1<<uR1, uR1, false, Entity{}, false)
				case 3:
					x.opRemoveEntity(0)
				default:
					x.opRemoveEntity(x.n - 1)
				}
			}
			x.checkEvents(rec, &before, wasReset)
			x.inv()
		}
		x.w.SetListener(nil)
		x.rec = nil
		x.check()
		x.sameSelection(&cf1, b1.f)
		x.checkQueries(true)
		x.w.Resources().Add(r2, &hRes2{2})
		vAssert(x.w.Resources().Has(r2) && !x.w.Resources().Has(r1), "resource ids stay valid after the reset")
		x.w.Resources().Remove(r2)
		x.w.Resources().Add(r1, &hRes1{3})
	}
	vReach("end")
}

// legalStepSmall: a few operation kinds with a reduced argument range (for multi-step harnesses).
func (x *hW) legalStepSmall(op int) {
	sets := [5]uint8{0, 1 << uA, 1<<uA | 1<<uB, 1 << uR1, 1<<uA | 1<<uR1}
	switch op {
	case 0:
		x.opNewEntityWith(sets[vChoice("set", 5)])
	case 1: // Add one component
		i := x.pickAliveIdx("ent")
		k := [3]int{uA, uB, uR1}[vChoice("comp", 3)]
		vAssume(x.exchangeLegal(i, 1<<k, 0))
		x.opExchange(i, 1<<k, 0, 1)
	case 2:
		s := sets[3+vChoice("set", 2)]
		x.opBuilderNew(s, hRelOf(s), true, x.pickOKTarget("tgt"), vChoice("withcomps", 2) == 1)
	case 4: // Remove one component
		i := x.pickAliveIdx("ent")
		k := [3]int{uA, uB, uR1}[vChoice("comp", 3)]
		vAssume(x.set[i]&(1<<k) != 0)
		x.opExchange(i, 0, 1<<k, 2)
	default:
		x.legalStep(op)
	}
}
