package ecs

// C10: illegal operations panic, and single-entity failures change nothing.

func init() {
	vRegister("HC10_Illegal", HC10_Illegal)
	vRegister("HC10_BatchDup", HC10_BatchDup)
}

func (x *hW) smallSet(name string) uint8 {
	if vTier() == 0 {
		sets := [6]uint8{0, 1 << uA, 1 << uB, 1 << uR1, 1 << uR2, 1<<uA | 1<<uR1}
		return sets[vChoice(name, 6)]
	}
	var sets [64]uint8
	n := 0
	for s := 0; s < 1<<x.nu; s++ {
		if hPop(uint8(s)) > 2 {
			continue
		}
		sets[n] = uint8(s)
		n++
	}
	return sets[vChoice(name, n)]
}

// pickTarget3: zero, the first alive handle, the first dead handle.
func (x *hW) pickTarget3(name string) Entity {
	ts := [3]Entity{}
	n := 1
	for j := 0; j < x.n; j++ {
		if x.alive[j] {
			ts[n] = x.h[j]
			n++
			break
		}
	}
	for j := 0; j < x.n; j++ {
		if !x.alive[j] {
			ts[n] = x.h[j]
			n++
			break
		}
	}
	return ts[vChoice(name, n)]
}

func (x *hW) pickDead(name string) int {
	var idx [hMaxH]int
	n := 0
	for j := 0; j < x.n; j++ {
		if !x.alive[j] {
			idx[n] = j
			n++
		}
	}
	return idx[vChoice(name, n)]
}

const hNIllegal = 10

func (x *hW) illegalStep(class int) {
	w := &x.w
	switch class {
	case 0: // Add / Remove / Exchange: dead entity, present/absent component, second relation
		i := x.pickHandle("ent")
		add, rem := x.smallSet("add"), x.smallSet("rem")
		vAssume(add|rem != 0 && !x.exchangeLegal(i, add, rem))
		api := 0
		if rem == 0 {
			api = 1
		} else if add == 0 {
			api = 2
		}
		x.opExchange(i, add, rem, api)
	case 1: // Assign: dead entity, present component, no components
		i := x.pickHandle("ent")
		add := x.smallSet("add")
		vAssume(add == 0 || !x.exchangeLegal(i, add, 0))
		x.opAssign(i, add)
	case 2: // every accessor and mutator on a removed (possibly recycled) entity
		i := x.pickDead("ent")
		e := x.h[i]
		id := x.id[uA]
		var pan bool
		switch vChoice("api", 9) {
		case 0:
			pan, _ = vCatch(func() { w.Get(e, id) })
		case 1:
			pan, _ = vCatch(func() { w.Has(e, id) })
		case 2:
			pan, _ = vCatch(func() { w.Mask(e) })
		case 3:
			pan, _ = vCatch(func() { w.Ids(e) })
		case 4:
			pan, _ = vCatch(func() { w.Set(e, id, &hA{X: 1}) })
		case 5:
			pan, _ = vCatch(func() { w.RemoveEntity(e) })
		case 6:
			pan, _ = vCatch(func() { w.Relations().Get(e, x.id[uR1]) })
		case 7:
			pan, _ = vCatch(func() { w.Relations().Set(e, x.id[uR1], Entity{}) })
		default:
			pan, _ = vCatch(func() { NewBuilder(w, x.id[uB]).Add(e) })
		}
		vAssert(pan, "using a removed or recycled entity panics")
	case 3: // Set / write through Get on a missing component
		i := x.pickAliveIdx("ent")
		k := vChoice("comp", 3) // A, B, C
		vAssume(x.set[i]&(1<<k) == 0)
		x.opSet(i, k, vChoice("api", 2))
	case 4: // creation: two relations, target without / with wrong relation
		switch vChoice("kind", 5) {
		case 0:
			x.opNewEntity(1<<uR1 | 1<<uR2)
		case 1:
			x.opNewEntityWith(1<<uA | 1<<uR1 | 1<<uR2)
		case 2: // target given but builder has no relation
			x.opBuilderNew(1<<uA|1<<uR1, -1, true, Entity{}, vChoice("withcomps", 2) == 1)
		case 3: // relation not among the components
			x.opBuilderNew(1<<uA, uR1, true, Entity{}, vChoice("withcomps", 2) == 1)
		default: // non-relation component named as relation
			x.opBuilderNew(1<<uA|1<<uB, uB, true, Entity{}, vChoice("withcomps", 2) == 1)
		}
	case 5: // duplicate ids in one call
		A, B := x.id[uA], x.id[uB]
		var pan bool
		switch vChoice("kind", 5) {
		case 0:
			pan, _ = vCatch(func() { w.NewEntity(B, A, B) })
		case 1:
			i := x.pickAliveIdx("ent")
			vAssume(x.set[i]&(1<<uB) == 0)
			e := x.h[i]
			pan, _ = vCatch(func() { w.Add(e, B, B) })
		case 2:
			i := x.pickAliveIdx("ent")
			vAssume(x.set[i]&(1<<uA) != 0)
			e := x.h[i]
			pan, _ = vCatch(func() { w.Remove(e, A, A) })
		case 3:
			i := x.pickAliveIdx("ent")
			vAssume(x.set[i]&(1<<uA) != 0 && x.set[i]&(1<<uB) == 0)
			e := x.h[i]
			pan, _ = vCatch(func() { w.Exchange(e, []ID{B}, []ID{A, A}) })
		default:
			pan, _ = vCatch(func() { w.NewEntityWith(Component{ID: A, Comp: &hA{}}, Component{ID: A, Comp: &hA{}}) })
		}
		vAssert(pan, "duplicate component ids in one call panic")
	case 6: // non-positive batch counts (symbolic)
		cnt := vInt("count")
		vAssume(cnt <= 0)
		s := [2]uint8{0, 1 << uA}[vChoice("set", 2)]
		x.opNewBatch(s, cnt, -1, false, Entity{}, vChoice("withcomps", 2) == 1, vChoice("q", 2) == 1)
	case 7: // Relations.Set: dead entity / wrong component / dead target
		i := x.pickHandle("ent")
		r := vChoice("rel", x.nu)
		t := x.pickTarget("tgt")
		vAssume(!(x.alive[i] && x.set[i]&(1<<r) != 0 && hIsRel(r) && x.tgtOK(t)))
		x.opSetRelation(i, r, t)
	case 8: // Relations.Exchange / Builder.Add with target: every illegal combination
		i := x.pickHandle("ent")
		add, rem := x.smallSet("add"), x.smallSet("rem")
		r := uR1 + vChoice("rel", 2)
		t := x.pickTarget3("tgt")
		api := vChoice("api", 2)
		if api == 1 {
			vAssume(rem == 0)
		}
		ns := (x.set[i] &^ rem) | add
		legal := x.exchangeLegal(i, add, rem) && add|rem != 0 && ns&(1<<r) != 0 && x.tgtOK(t)
		vAssume(!legal)
		x.opRelExchange(i, add, rem, r, t, api)
	case 9: // double registration / unregistration of filters, stale handles
		f, t := x.pickFilter("filter")
		b := x.mkFilter(f, t)
		cf := w.Cache().Register(b.f)
		switch vChoice("how", 3) {
		case 0:
			pan, _ := vCatch(func() { w.Cache().Register(&cf) })
			vAssert(pan, "registering a registered filter again panics")
			w.Cache().Unregister(&cf)
		case 1:
			w.Cache().Unregister(&cf)
			pan, _ := vCatch(func() { w.Cache().Unregister(&cf) })
			vAssert(pan, "unregistering a filter twice panics")
		default:
			w.Cache().Unregister(&cf)
			b2 := x.mkFilter(fA, Entity{})
			cf2 := w.Cache().Register(b2.f)
			pan, _ := vCatch(func() { w.Cache().Unregister(&cf) })
			vAssert(pan, "unregistering a stale handle panics also after a later registration")
			pan, _ = vCatch(func() {
				q := w.Query(&cf)
				q.Close()
			})
			vAssert(pan, "a query through a stale registered-filter handle panics")
			x.checkQuery(&cf2, fA, Entity{})
			w.Cache().Unregister(&cf2)
		}
		x.lastPan = true
	}
}

// HC10_BatchDup: duplicate component ids in one batch call panic (like the single-entity forms).
func HC10_BatchDup() {
	prof, capInc, relInc := hConfig2()
	x := hNew(prof, 6, capInc, relInc)
	x.prefix([4]int{1, 3, 8, 9}[vChoice("prefix", 4)])
	A, B := x.id[uA], x.id[uB]
	b := x.mkFilter(fAexcl, Entity{})
	_, m := x.matching(fAexcl, Entity{})
	vAssume(m >= 1)
	w := &x.w
	var pan bool
	switch vChoice("how", 6) {
	case 0:
		pan, _ = vCatch(func() { w.Batch().Remove(b.f, A, A) })
	case 1:
		pan, _ = vCatch(func() { w.Batch().Add(b.f, B, B) })
	case 2:
		pan, _ = vCatch(func() { w.Batch().Exchange(b.f, []ID{B}, []ID{A, A}) })
	case 3:
		pan, _ = vCatch(func() { w.Batch().Exchange(b.f, []ID{B, x.id[uC], B}, nil) })
	case 4:
		pan, _ = vCatch(func() {
			q := w.Batch().RemoveQ(b.f, A, A)
			q.Close()
		})
	default:
		pan, _ = vCatch(func() {
			q := w.Batch().AddQ(b.f, B, B)
			q.Close()
		})
	}
	vAssert(pan, "duplicate component ids in one batch call panic")
	vAssert(!w.IsLocked(), "a failed batch call does not leave the world locked")
	vReach("end")
}

func HC10_Illegal() {
	prof, capInc, relInc := hConfig2()
	if vTier() == 1 {
		vAssume(!(prof == 1 && capInc == 2)) // thorough: 3 of the 4 configurations (path budget)
	}
	x := hNew(prof, 6, capInc, relInc)
	x.prefix([7]int{1, 3, 4, 6, 8, 9, 15}[vChoice("prefix", 7)])
	rounds := 1 + vTier()
	for r := 0; r < rounds; r++ {
		d0 := x.digest()
		if r == 0 {
			x.illegalStep(vChoice("class", hNIllegal))
		} else {
			// second failed call: a fixed one (second relation component at creation)
			x.opNewEntity(1<<uR1 | 1<<uR2)
		}
		vAssert(x.lastPan || true, "")
		d1 := x.digest()
		// failed graph walks may leave empty nodes / tables behind (visible only in Stats().Nodes, not part of the property)
		d0.nodes, d1.nodes, d0.relNodes, d1.relNodes = 0, 0, 0, 0
		d0.arches, d1.arches, d0.caps, d1.caps = 0, 0, 0, 0
		d0.activeTables, d1.activeTables, d0.mapped, d1.mapped, d0.freeTables, d1.freeTables = 0, 0, 0, 0, 0, 0
		vAssert(d0 == d1, "a failed call leaves hidden state unchanged")
		vAssert(!x.w.IsLocked(), "a failed call does not leave the world locked")
		x.check()
		x.inv()
	}
	// the world remains fully usable
	x.opNewEntityWith(1<<uA | 1<<uB)
	if x.aliveCount() > 0 {
		i := x.pickAliveIdx("after")
		if x.set[i]&(1<<uC) == 0 {
			x.opExchange(i, 1<<uC, 0, 1)
		} else {
			x.opRemoveEntity(i)
		}
	}
	x.check()
	x.inv()
	vReach("end")
}
