package ecs

import "unsafe"

// C19: worlds are isolated. Interleavings are discharged by a footprint
// argument: operations on one world write no block reachable from the other
// world and no package-level variable, so any schedule of one-goroutine-per-
// world programs is race free and independent.

func init() {
	vRegister("HC19_Isolation", HC19_Isolation)
}

func HC19_Isolation() {
	prof, capInc, relInc := 0, 1, 1
	if vTier() == 1 {
		prof, capInc, relInc = hConfig2()
	}
	// creating and populating the very first world of the process writes no package-level state either
	vFootprintStart()
	x1 := hNew(prof, 6, capInc, relInc)
	// the second world registers the same types in reverse order (different ids)
	x2 := &hW{nu: 6}
	x2.pReset()
	x2.w = NewWorld(NewConfig().WithCapacityIncrement(3 - capInc%2))
	for k := 5; k >= 0; k-- {
		x2.id[k] = hRegister(&x2.w, k)
	}
	pf := [5]int{3, 8, 1, 4, 9}[vChoice("prefix", 2+3*vTier())]
	x1.prefix(pf)
	nothing := new(int64)
	vAssert(vIsolated(unsafe.Pointer(nothing)), "creating and populating a world writes no package-level state")
	x2.prefix([5]int{3, 1, 8, 9, 4}[vChoice("prefix2", 1+vTier())])
	x2.check()
	// operations on world 1 only
	vFootprintStart()
	switch vChoice("family", 4) {
	case 0:
		x1.legalStep(vChoice("op", hNOps))
	case 1:
		x1.batchStep(vChoice("op", hNBatchOps))
	case 2:
		x1.deathStep(vChoice("op", hNDeathOps))
	default: // queries, cache, resources, type registration
		m := All(x1.id[uA])
		cf := x1.w.Cache().Register(&m)
		q := x1.w.Query(&cf)
		for q.Next() {
		}
		ComponentID[hP](&x1.w)
		AddResource(&x1.w, &hA{X: 1})
		x1.w.Stats()
	}
	vAssert(vIsolated(unsafe.Pointer(x2)), "operations on one world write nothing reachable from another world and no package-level state")
	// world 2 is observably unchanged and fully usable; then the other direction
	x2.check()
	x2.inv()
	vFootprintStart()
	x2.opNewEntityWith(1<<uA | 1<<uB)
	x2.opBuilderNew(1<<uA|1<<uR1, uR1, true, x2.h[0], true)
	x2.opRemoveEntity(0)
	x2.opReset()
	x2.opNewEntityWith(1 << uA)
	vAssert(vIsolated(unsafe.Pointer(x1)), "operations on one world write nothing reachable from another world and no package-level state")
	x1.check()
	x1.inv()
	x2.check()
	vReach("end")
}

func init() { vRegister("HC19_SharedDump", HC19_SharedDump) }

// HC19_SharedDump: two worlds loaded from the same dump object share nothing:
// operations on one write nothing reachable from the other or from the dump.
func HC19_SharedDump() {
	src := NewWorld()
	a := src.NewEntity()
	b := src.NewEntity()
	src.NewEntity()
	c := src.NewEntity()
	src.RemoveEntity(b)
	if vChoice("two", 2) == 1 {
		src.RemoveEntity(c)
	}
	// dump and receivers live in separate allocations
	d := new(EntityDump)
	*d = src.DumpEntities()
	w1, w2 := new(World), new(World)
	// receivers whose capacity increment divides the dump size or not
	*w1 = NewWorld(NewConfig().WithCapacityIncrement([3]int{1, 4, 5}[vChoice("cap1", 3)]))
	*w2 = NewWorld(NewConfig().WithCapacityIncrement([3]int{1, 4, 5}[vChoice("cap2", 3)]))
	w1.LoadEntities(d)
	w2.LoadEntities(d)
	// everything reachable from world 2 and from the dump must stay untouched by world 1
	other := &struct {
		d *EntityDump
		w *World
	}{d, w2}
	n0 := len(d.Entities)
	var before [8]Entity
	for i := 0; i < n0 && i < 8; i++ {
		before[i] = d.Entities[i]
	}
	vFootprintStart()
	w1.NewEntity()
	w1.RemoveEntity(a)
	w1.NewEntity()
	vAssert(vIsolated(unsafe.Pointer(other)), "operations on a world loaded from a dump write nothing reachable from the dump or from another world loaded from it")
	vAssert(w2.Alive(a) && !w2.Alive(b), "a world loaded from the same dump is unaffected")
	d2 := w2.DumpEntities()
	vAssert(len(d2.Entities) == n0 && len(d.Entities) == n0 && d2.Next == d.Next && d2.Available == d.Available, "the dump and the second world still agree")
	for i := 0; i < n0 && i < 8; i++ {
		vAssert(d.Entities[i] == before[i] && d2.Entities[i] == before[i], "the dump object is not modified by worlds loaded from it")
	}
	vReach("end")
}
