package ecs

import "github.com/mlange-42/arche/ecs/event"

// C09: the world lock.

func init() {
	vRegister("HC09_Depth", HC09_Depth)
	vRegister("HC09_Sweep", HC09_Sweep)
	vRegister("HC09_Listener", HC09_Listener)
}

// HC09_Depth: open up to the limit of queries, close them in several orders,
// open again; one more than the limit panics with the documented message.
func HC09_Depth() {
	x := hNew(0, 2, 2, 1)
	x.opNewEntity(1)
	x.opNewEntity(1)
	m := All(x.id[uA])
	const lim = MaskTotalBits
	var qs [lim + 1]Query
	depth := [6]int{1, 2, 3, lim - 1, lim, lim}[vChoice("depth", 6)]
	for i := 0; i < depth; i++ {
		qs[i] = x.w.Query(&m)
		vAssert(x.w.IsLocked(), "world is locked while a query is open")
	}
	if vChoice("overflow", 2) == 1 {
		vAssume(depth == lim)
		pan, _ := vCatch(func() { qs[lim] = x.w.Query(&m) })
		vAssert(pan, "opening more queries than lock bits panics")
	}
	// structural change is refused at every depth
	pan, msg := vCatch(func() { x.w.NewEntity() })
	vAssert(pan && msg == hLockMsg, "structural change panics while locked")
	// close in one of three orders
	switch vChoice("order", 3) {
	case 0:
		for i := 0; i < depth; i++ {
			qs[i].Close()
			vAssert(x.w.IsLocked() == (i < depth-1), "world stays locked until the last query is closed")
		}
	case 1:
		for i := depth - 1; i >= 0; i-- {
			qs[i].Close()
			vAssert(x.w.IsLocked() == (i > 0), "world stays locked until the last query is closed")
		}
	default: // evens by exhaustion, odds by Close
		for i := 0; i < depth; i += 2 {
			for qs[i].Next() {
			}
		}
		for i := 1; i < depth; i += 2 {
			qs[i].Close()
		}
	}
	vAssert(!x.w.IsLocked(), "world is unlocked once every query is closed or exhausted")
	pan, _ = vCatch(func() { qs[0].Close() })
	vAssert(pan, "closing a query twice panics")
	vAssert(!x.w.IsLocked(), "a failed Close does not lock the world")
	// optionally reset the world in between (locks are reset too)
	if vChoice("reset", 2) == 1 {
		x.opReset()
		x.opNewEntity(1)
	}
	// all lock bits are usable again, each open query holds its own lock
	again := [4]int{1, 2, depth + 1, lim}[vChoice("again", 4)]
	vAssume(again <= lim)
	for i := 0; i < again; i++ {
		pan, _ := vCatch(func() { qs[i] = x.w.Query(&m) })
		vAssert(!pan, "lock bits are reusable after release")
		if pan {
			break
		}
	}
	if vChoice("order2", 2) == 0 {
		for i := again - 1; i >= 0; i-- {
			qs[i].Close()
			vAssert(x.w.IsLocked() == (i > 0), "world stays locked until the last query is closed")
		}
	} else {
		for i := 0; i < again; i++ {
			for qs[i].Next() {
			}
			vAssert(x.w.IsLocked() == (i < again-1), "world stays locked until the last query is exhausted")
		}
	}
	vAssert(!x.w.IsLocked(), "world is unlocked at the end")
	x.opNewEntity(1)
	x.check()
	vReach("end")
}

// digest of hidden state that a refused call must not change.
type hDigest struct {
	poolLen, poolNext, poolAvail, entLen       int
	nodes, arches, relNodes, types, filters   int
	rows, caps, freeTables, activeTables, mapped int
	resTypes                                  int
}

func (x *hW) digest() hDigest {
	w := &x.w
	d := hDigest{poolLen: len(w.entityPool.entities), poolNext: int(w.entityPool.next), poolAvail: int(w.entityPool.available), entLen: len(w.entities),
		nodes: int(w.nodes.Len()), arches: int(w.archetypes.Len()), relNodes: len(w.relationNodes), types: w.registry.Count(), filters: len(w.filterCache.filters),
		resTypes: w.resources.registry.Count()}
	nn := w.nodes.Len()
	for ni := int32(0); ni < nn; ni++ {
		nd := w.nodes.Get(ni)
		if !nd.IsActive {
			continue
		}
		ar := nd.Archetypes()
		for ai := int32(0); ai < ar.Len(); ai++ {
			a := ar.Get(ai)
			d.rows += int(a.len)
			d.caps += int(a.cap)
			if a.IsActive() {
				d.activeTables++
			}
		}
		d.freeTables += len(nd.freeIndices)
		d.mapped += len(nd.archetypeMap)
	}
	return d
}

const hNEntry = 36

// entry performs structural entry point k with arguments that are legal on an
// unlocked world; returns false if k does not apply to the current world.
func (x *hW) entry(k int, q bool) {
	A, B, R1 := uint8(1<<uA), uint8(1<<uB), uint8(1<<uR1)
	// roles in the prefix world: h[0] parent, h[1] child [A,R1]->h[0], h[2] plain [A], h[3] plain [A]
	fa := x.mkFilter(fAexcl, Entity{})  // exactly [A]
	fr := x.mkFilter(fRelT, x.h[0])      // children of h[0]
	switch k {
	case 0:
		x.opNewEntity(A)
	case 1:
		x.opNewEntityWith(A | B)
	case 2:
		x.opExchange(2, B, 0, 1) // World.Add
	case 3:
		x.opExchange(2, 0, A, 2) // World.Remove
	case 4:
		x.opExchange(2, B, A, 0) // World.Exchange
	case 5:
		x.opAssign(2, B)
	case 6:
		x.opRemoveEntity(3)
	case 7:
		x.opReset()
	case 8:
		x.opBuilderNew(A, -1, false, Entity{}, false) // Builder.New ids
	case 9:
		x.opBuilderNew(A, -1, false, Entity{}, true) // Builder.New values
	case 10:
		x.opBuilderNew(A|R1, uR1, true, x.h[0], false) // Builder.New ids + target
	case 11:
		x.opBuilderNew(A|R1, uR1, true, x.h[0], true) // Builder.New values + target
	case 12:
		x.opNewBatch(A, 2, -1, false, Entity{}, false, q) // NewBatch / NewBatchQ ids
	case 13:
		x.opNewBatch(A, 2, -1, false, Entity{}, true, q) // values
	case 14:
		x.opNewBatch(A|R1, 2, uR1, true, x.h[0], false, q) // ids + target
	case 15:
		x.opNewBatch(A|R1, 2, uR1, true, x.h[0], true, q) // values + target
	case 16:
		x.opRelExchange(2, R1, 0, uR1, x.h[0], 1) // Builder.Add ids + target
	case 17:
		x.opBuilderAddWith(2, R1, uR1, x.h[0]) // Builder.Add values + target
	case 18: // Builder.Add ids, no target
		e := x.h[2]
		pan, msg := vCatch(func() { NewBuilder(&x.w, x.id[uB]).Add(e) })
		x.expectPanic(pan, msg, x.locks != 0, "Builder.Add panics exactly when locked")
		if !pan {
			x.mExchange(2, B, 0, false, Entity{})
		}
	case 19: // Builder.Add values, no target
		e := x.h[2]
		v := hSymVals("ba")
		comps := x.comps(B, &v)
		pan, msg := vCatch(func() { NewBuilderWith(&x.w, comps...).Add(e) })
		x.expectPanic(pan, msg, x.locks != 0, "Builder.Add panics exactly when locked")
		if !pan {
			x.mExchange(2, B, 0, false, Entity{})
			x.mSetVals(2, B, &v)
		}
	case 20:
		x.opSetRelation(1, uR1, Entity{}) // Relations.Set
	case 21:
		x.opRelExchange(1, B, 0, uR1, Entity{}, 0) // Relations.Exchange
	case 22:
		x.opBatchExchange(fa.f, fAexcl, Entity{}, B, 0, 1, q, -1, Entity{}) // Batch.Add / AddQ
	case 23:
		x.opBatchExchange(fa.f, fAexcl, Entity{}, 0, A, 2, q, -1, Entity{}) // Batch.Remove / RemoveQ
	case 24:
		x.opBatchExchange(fa.f, fAexcl, Entity{}, B, A, 0, q, -1, Entity{}) // Batch.Exchange / ExchangeQ
	case 25:
		x.opBatchSetRelation(fr.f, fRelT, x.h[0], uR1, Entity{}, q, false) // Batch.SetRelation(Q)
	case 26:
		x.opBatchSetRelation(fr.f, fRelT, x.h[0], uR1, Entity{}, q, true) // Relations.SetBatch(Q)
	case 27:
		x.opBatchExchange(fr.f, fRelT, x.h[0], B, 0, 0, q, uR1, Entity{}) // Relations.ExchangeBatch(Q)
	case 28:
		x.opRemoveEntities(fa.f, fAexcl, Entity{}) // Batch.RemoveEntities
	case 29: // Batch.Add with no matching entity still needs an unlocked world
		fe := x.mkFilter(fAB, Entity{})
		x.opBatchExchange(fe.f, fAB, Entity{}, 1<<uC, 0, 1, q, -1, Entity{})
	case 30: // registering a new component type
		before := len(ComponentIDs(&x.w))
		var id ID
		pan, msg := vCatch(func() { id = ComponentID[hP](&x.w) })
		x.lastPan, x.lastMsg = pan, msg
		vAssert(pan == (x.locks != 0), "registering a new type panics exactly when locked")
		if pan {
			vAssert(len(ComponentIDs(&x.w)) == before, "a refused registration leaves the registry unchanged")
			_, ok := ComponentInfo(&x.w, ID{uint8(before)})
			vAssert(!ok, "a refused registration leaves no component info behind")
		} else {
			vAssert(int(id.id) == before, "ids are assigned densely")
		}
	case 31: // LoadEntities
		d := EntityDump{Entities: []Entity{{0, 0xFFFFFFFF}}, Alive: []uint32{}, Next: 0, Available: 0}
		pan, msg := vCatch(func() { x.w.LoadEntities(&d) })
		x.lastPan, x.lastMsg = pan, msg
		vAssert(pan, "LoadEntities on a used or locked world panics")
	case 32: // batch SetRelation whose filter matches nothing
		fn := x.mkFilter(fRelT, x.h[2])
		x.opBatchSetRelation(fn.f, fRelT, x.h[2], uR1, Entity{}, q, false)
	case 33: // RemoveEntities matching nothing
		fe := x.mkFilter(fAB, Entity{})
		x.opRemoveEntities(fe.f, fAB, Entity{})
	case 34: // re-targeting to the current target is still a structural call
		x.opSetRelation(1, uR1, x.tgt[1])
	case 35: // an exchange that adds and removes nothing
		x.opExchange(2, 0, 0, 0)
	}
}

// sweepWorld: parent, child, two plain entities.
func hSweepWorld() *hW {
	prof, capInc, relInc := hConfig2()
	x := hNew(prof, 6, capInc, relInc)
	x.opNewEntity(0)
	x.opBuilderNew(1<<uA|1<<uR1, uR1, true, x.h[0], true)
	x.opNewEntityWith(1 << uA)
	x.opNewEntityWith(1 << uA)
	return x
}

// refused: entry point k under lock must panic with the lock message and change nothing.
func (x *hW) refused(k int, q bool) {
	d0 := x.digest()
	x.entry(k, q)
	vAssert(x.lastPan, "structural entry point panics on a locked world")
	if k == 30 {
		vAssert(x.lastMsg == "attempt to register a new component in a locked world", "registration under lock panics with its documented message")
	} else {
		vAssert(x.lastMsg == hLockMsg, "structural entry point panics with the lock message")
	}
	vAssert(x.digest() == d0, "a refused call leaves hidden state unchanged")
	vAssert(x.w.IsLocked(), "a refused call leaves the lock held")
}

func HC09_Sweep() {
	x := hSweepWorld()
	k := vChoice("entry", hNEntry)
	useQ := vChoice("q", 2) == 1
	m := All(x.id[uA])
	var q1, q2 Query
	src := vChoice("locksource", 4)
	nopen := 1
	switch src {
	case 0: // plain query, possibly advanced
		q1 = x.w.Query(&m)
		if vChoice("advanced", 2) == 1 {
			q1.Next()
		}
	case 1: // registered filter
		cf := x.w.Cache().Register(&m)
		q1 = x.w.Query(&cf)
	case 2: // batch-result query
		q1 = NewBuilder(&x.w, x.id[uA]).NewBatchQ(2)
		x.mCreated(q1.EntityAt(0), 1<<uA, Entity{})
		x.mCreated(q1.EntityAt(1), 1<<uA, Entity{})
	default: // nested
		q1 = x.w.Query(&m)
		q1.Next()
		m2 := All()
		q2 = x.w.Query(&m2)
		nopen = 2
	}
	x.locks = nopen
	vAssert(x.w.IsLocked(), "world is locked while a query is open")
	x.refused(k, useQ)
	// observables unchanged, non-structural calls keep working
	x.check()
	x.w.Set(x.h[2], x.id[uA], &hA{X: 5})
	x.a[2] = 5
	vAssert(x.w.Relations().Get(x.h[1], x.id[uR1]) == x.h[0], "Relations.Get works on a locked world")
	// release
	rel := vChoice("release", 5)
	closeQ := func(q *Query) {
		switch rel {
		case 0:
			for q.Next() {
			}
		case 1:
			vAssert(!q.Step(1000), "Step beyond the end closes the query")
		case 2:
			q.Close()
		case 3:
			q.Count()
			q.Close()
		default:
			if q.Count() > 0 {
				q.EntityAt(0)
			}
			q.Close()
		}
	}
	if nopen == 2 {
		if vChoice("inner-first", 2) == 1 {
			closeQ(&q2)
			vAssert(x.w.IsLocked(), "world stays locked while the outer query is open")
			x.refused(k, useQ)
			closeQ(&q1)
		} else {
			closeQ(&q1)
			vAssert(x.w.IsLocked(), "world stays locked while the inner query is open")
			x.refused(k, useQ)
			closeQ(&q2)
		}
	} else {
		closeQ(&q1)
	}
	x.locks = 0
	vAssert(!x.w.IsLocked(), "world is unlocked once every query is closed or exhausted")
	// the same call succeeds now
	if k != 31 {
		x.entry(k, useQ)
		vAssert(!x.lastPan, "the entry point succeeds again once the world is unlocked")
	}
	x.check()
	x.inv()
	vReach("end")
}

// HC09_Listener: the world is locked while removal events are delivered.
type hLockListener struct {
	x    *hW
	k    int
	q    bool
	seen int
	comp *Mask // component restriction (nil: none)
}

func (l *hLockListener) Notify(w *World, e EntityEvent) {
	l.seen++
	vAssert(w.IsLocked(), "world is locked while a removal event is delivered")
	vAssert(w.Alive(e.Entity), "entity is still alive while its removal event is delivered")
	l.x.locks = 1
	l.x.refused(l.k, l.q)
	l.x.locks = 0
}
func (l *hLockListener) Subscriptions() event.Subscription { return event.EntityRemoved }
func (l *hLockListener) Components() *Mask                 { return l.comp }

func HC09_Listener() {
	x := hSweepWorld()
	k := vChoice("entry", hNEntry)
	l := &hLockListener{x: x, k: k, q: vChoice("q", 2) == 1}
	x.w.SetListener(l)
	if vChoice("restricted", 2) == 1 {
		// only removals touching component A are subscribed; tables without A are visited silently
		x.w.SetListener(nil)
		x.opNewEntityWith(1 << uB) // a table created after the subscribed ones
		m := All(x.id[uA])
		l.comp = &m
		x.w.SetListener(l)
		f := x.mkFilter(fAll, Entity{})
		n := x.w.Batch().RemoveEntities(f.f)
		vAssert(n == 5 && l.seen == 3, "one removal event per removed entity with a subscribed component")
		for j := 0; j < x.n; j++ {
			x.alive[j] = false
		}
		x.pKnown = false
	} else if vChoice("batch", 2) == 0 {
		x.w.RemoveEntity(x.h[3])
		x.alive[3] = false
		vAssert(l.seen == 1, "one removal event")
	} else {
		f := x.mkFilter(fAexcl, Entity{})
		n := x.w.Batch().RemoveEntities(f.f)
		vAssert(n == 2 && l.seen == 2, "one removal event per removed entity")
		x.alive[2], x.alive[3] = false, false
	}
	vAssert(!x.w.IsLocked(), "world is unlocked after the removal")
	x.w.SetListener(nil)
	x.check()
	x.inv()
	vReach("end")
}

func init() { vRegister("HC09_BitPool", HC09_BitPool) }

// HC09_BitPool: one-step lemmas on the lock-bit pool from an arbitrary
// well-formed state (up to 6 bits handed out so far, any free-list shape).
func HC09_BitPool() {
	const N = 6
	var p bitPool
	length := vChoice("length", N+1)
	p.length = uint16(length)
	avail := 0
	if length > 0 {
		avail = vChoice("available", length+1)
	}
	var free [N]bool
	var chain [N]int
	for k := 0; k < avail; k++ {
		c := vChoice("link", length)
		vAssume(!free[c])
		free[c] = true
		chain[k] = c
	}
	for i := 0; i < length; i++ {
		p.bits[i] = uint8(i)
	}
	if avail > 0 {
		p.next = uint8(chain[0])
		for k := 0; k < avail; k++ {
			nx := vU8("tail")
			if k+1 < avail {
				nx = uint8(chain[k+1])
			}
			p.bits[chain[k]] = nx
		}
	} else {
		p.next = vU8("next0")
	}
	hSetInt(&p.available, avail) // whatever integer type the counter has
	// Get: a bit that is not held, below the limit
	b := p.Get()
	if int(b) < length {
		vAssert(free[b], "a lock bit handed out is not held by another query")
		free[b] = false
	} else {
		vAssert(int(b) == length && length < MaskTotalBits, "fresh lock bits are handed out densely")
	}
	// a second Get differs from the first
	b2 := p.Get()
	vAssert(b2 != b, "two open queries never share a lock bit")
	if int(b2) < length {
		vAssert(free[b2], "a lock bit handed out is not held by another query")
	}
	// Recycle then Get returns the same bit (LIFO), and the other one stays distinct
	p.Recycle(b)
	b3 := p.Get()
	vAssert(b3 == b && b3 != b2, "a released lock bit is re-used first and never collides with a held one")
	vReach("end")
}

// hSetInt stores v into an integer field of any width: the lemma harnesses set
// internal counters directly and must keep compiling when a change narrows or
// widens such a field (the narrowing is then decided, not a build error).
func hSetInt[T ~uint8 | ~uint16 | ~uint32 | ~uint64 | ~int | ~int32 | ~int64](dst *T, v int) {
	*dst = T(v)
}
