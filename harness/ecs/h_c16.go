package ecs

import "reflect"

// C16: type registry is a stable dense bijection and every component ID is usable,
// whenever the type was registered relative to existing tables.

func init() {
	vRegister("HC16_Layouts", HC16_Layouts)
	vRegister("HC16_Shapes", HC16_Shapes)
}

func hFillerType(i int) reflect.Type { return reflect.ArrayOf(i+1, hByteType) }

// boundary values scaled to the build's ID range
func hBoundary() ([14]int, int) {
	if MaskTotalBits == 64 {
		return [14]int{0, 1, 15, 16, 17, 31, 32, 33, 47, 48, 49, 62, 63, 64}, 14
	}
	return [14]int{0, 1, 15, 16, 17, 63, 64, 65, 128, 192, 239, 240, 241, 255}, 14
}

func HC16_Layouts() {
	w := NewWorld(NewConfig().WithCapacityIncrement(1 + vChoice("capinc", 2)))
	bs, nb := hBoundary()
	lim := MaskTotalBits
	// m types are registered before the first tables exist, n in total
	m := bs[vChoice("m", nb)]
	var ns [16]int
	nn := 0
	for k := 0; k < nb; k++ {
		if bs[k] >= m && bs[k] > 0 {
			ns[nn] = bs[k]
			nn++
		}
	}
	if m < lim {
		ns[nn] = lim
		nn++
	}
	n := ns[vChoice("n", nn)]
	for i := 0; i < m; i++ {
		id := w.componentID(hFillerType(i))
		vAssert(int(id.id) == i, "ids are assigned densely in registration order")
	}
	// tables created now: the empty table exists; one more with the newest id (if any)
	e0 := w.NewEntity()
	var eOld Entity
	oldID := -1
	if m > 0 {
		oldID = m - 1
		eOld = w.NewEntity(ID{uint8(oldID)})
	}
	for i := m; i < n; i++ {
		id := w.componentID(hFillerType(i))
		vAssert(int(id.id) == i, "ids are assigned densely in registration order")
	}
	// registry is a stable bijection
	ids := ComponentIDs(&w)
	vAssert(len(ids) == n, "ComponentIDs lists every registered type")
	j := bs[vChoice("j", nb)]
	vAssume(j < n)
	J := ID{uint8(j)}
	vAssert(ids[j] == J, "ComponentIDs is dense and ordered")
	info, ok := ComponentInfo(&w, J)
	vAssert(ok && info.Type == hFillerType(j) && !info.IsRelation && info.ID == J, "ComponentInfo reports the registered type")
	vAssert(w.componentID(hFillerType(j)) == J, "the same type always gets the same id")
	vAssert(len(ComponentIDs(&w)) == n, "looking up a registered type registers nothing")
	if n < lim {
		_, ok2 := ComponentInfo(&w, ID{uint8(n)})
		vAssert(!ok2, "ComponentInfo of an unregistered id reports false")
	}
	// the id is usable on tables created before and after its registration
	vAssert(!w.Has(e0, J), "old table: Has is false for a component it does not hold")
	vAssert(w.Get(e0, J) == nil, "old table: Get is nil for a component it does not hold")
	if m > 0 {
		vAssert(w.Has(eOld, J) == (j == oldID), "old table: Has agrees for every registered id")
		vAssert((w.Get(eOld, J) != nil) == (j == oldID), "old table: Get agrees for every registered id")
	}
	eNew := w.NewEntity(J)
	vAssert(w.Has(eNew, J), "new table carries the component")
	val := vU8("val")
	*(*uint8)(w.Get(eNew, J)) = val
	// move an entity from an old table into a table with the id, and back
	w.Add(e0, J)
	vAssert(w.Has(e0, J) && w.Has(eNew, J), "Add works for every registered id")
	vAssert(*(*uint8)(w.Get(eNew, J)) == val, "component value survives moves of other entities")
	vAssert(*(*uint8)(w.Get(e0, J)) == 0, "a newly added component reads zero")
	if m > 0 && j != oldID {
		w.Add(eOld, J)
		vAssert(w.Has(eOld, J) && w.Has(eOld, ID{uint8(oldID)}), "entity from an old table can carry a later registered id")
		w.Remove(eOld, J)
		vAssert(!w.Has(eOld, J) && w.Has(eOld, ID{uint8(oldID)}), "and drop it again")
	}
	mask := All(J)
	q := w.Query(&mask)
	wantQ := 2
	if m > 0 && j == oldID {
		wantQ = 3
	}
	vAssert(q.Count() == wantQ, "query by a registered id finds its entities")
	cnt := 0
	for q.Next() {
		vAssert(q.Has(J) && q.Get(J) != nil, "query gives access to the component")
		cnt++
	}
	vAssert(cnt == wantQ, "query by a registered id iterates its entities")
	w.Remove(e0, J)
	vAssert(!w.Has(e0, J), "Remove works for every registered id")
	// the limit
	if n == lim {
		pan, _ := vCatch(func() { w.componentID(hFillerType(lim)) })
		vAssert(pan, "one registration beyond the limit panics")
		vAssert(len(ComponentIDs(&w)) == lim, "a refused registration leaves the registry unchanged")
		vAssert(w.componentID(hFillerType(j)) == J, "ids stay valid after a refused registration")
		e2 := w.NewEntity(J)
		vAssert(w.Has(e2, J), "the world stays usable after a refused registration")
	}
	vReach("end")
}

type hRelLater struct {
	X int32
	Relation
}
type hRelNamed struct {
	R Relation
	X int32
}
type hRelNamedSame struct {
	Relation Relation // a field NAMED Relation is not an embedded ecs.Relation
	X        int32
}
type hRelPtr struct {
	*Relation
}
type hNonStruct [3]int32
type hRelOnly struct{ Relation }

func HC16_Shapes() {
	w := NewWorld()
	pre := vChoice("pre", 3)
	hFill(&w, [3]int{0, 15, MaskTotalBits/4 - 1}[pre])
	base := w.registry.Count()
	a := ComponentID[hR1](&w)
	b := ComponentID[hRelLater](&w)
	c := ComponentID[hRelNamed](&w)
	d := ComponentID[hNonStruct](&w)
	e := ComponentID[hRelOnly](&w)
	f := ComponentID[hRelPtr](&w)
	g := ComponentID[hA](&w)
	hn := ComponentID[hRelNamedSame](&w)
	infoN, okN := ComponentInfo(&w, hn)
	vAssert(okN && !infoN.IsRelation && int(hn.id) == base+7, "a first field merely named Relation does not make a relation component")
	base++
	all := [7]ID{a, b, c, d, e, f, g}
	want := [7]bool{true, false, false, false, true, false, false}
	base--
	for i := 0; i < 7; i++ {
		vAssert(int(all[i].id) == base+i, "ids are assigned densely in registration order")
		info, ok := ComponentInfo(&w, all[i])
		vAssert(ok && info.IsRelation == want[i], "a type is a relation exactly when ecs.Relation is embedded as its first field")
	}
	vAssert(ComponentID[hRelLater](&w) == b && ComponentID[hR1](&w) == a, "the same type always gets the same id")
	vAssert(TypeID(&w, reflect.TypeOf(hRelNamed{})) == c, "TypeID and ComponentID agree")
	vAssert(len(ComponentIDs(&w)) == base+8, "no duplicate registrations")
	base++
	// only real relation components accept a target
	p := w.NewEntity()
	ok1, _ := vCatch(func() { NewBuilder(&w, a).WithRelation(a).New(p) })
	ok2, _ := vCatch(func() { NewBuilder(&w, b).WithRelation(b).New(p) })
	ok3, _ := vCatch(func() { NewBuilder(&w, c).WithRelation(c).New(p) })
	vAssert(!ok1 && ok2 && ok3, "only relation components accept a target")
	// two relation components are refused, relation + non-relation lookalikes are fine
	ok4, _ := vCatch(func() { w.NewEntity(a, e) })
	ok5, _ := vCatch(func() { w.NewEntity(a, b, c, f) })
	vAssert(ok4 && !ok5, "only real relation components count for the one-relation rule")
	// resources use their own registry
	r1 := ResourceID[hR1](&w)
	r2 := ResourceID[hA](&w)
	vAssert(r1.id == 0 && r2.id == 1, "resource ids are dense and independent of component ids")
	rt, ok := ResourceType(&w, r2)
	vAssert(ok && rt == reflect.TypeOf(hA{}), "ResourceType reports the registered type")
	vAssert(len(ResourceIDs(&w)) == 2 && ResourceIDs(&w)[1] == r2, "ResourceIDs lists the registered types")
	_, ok = ResourceType(&w, ResID{2})
	vAssert(!ok, "ResourceType of an unregistered id reports false")
	vAssert(len(ComponentIDs(&w)) == base+7, "resource registrations do not consume component ids")
	// a registration refused under lock is rolled back completely
	m := All()
	q := w.Query(&m)
	pan, _ := vCatch(func() { ComponentID[hR2](&w) })
	vAssert(pan, "registration in a locked world panics")
	q.Close()
	h := ComponentID[hB](&w)
	info, _ := ComponentInfo(&w, h)
	vAssert(int(h.id) == base+7 && !info.IsRelation && info.Type == reflect.TypeOf(hB{}), "a refused registration leaves nothing behind for the next type")
	h2 := ComponentID[hR2](&w)
	info2, _ := ComponentInfo(&w, h2)
	vAssert(int(h2.id) == base+8 && info2.IsRelation, "the refused type can be registered later")
	vReach("end")
}
