package ecs

// C06: target death and table recycling never corrupt or leak entities.

func init() {
	vRegister("HC06_TargetDeath", HC06_TargetDeath)
}

var hDeathPrefixes = [10]int{3, 4, 5, 7, 8, 10, 11, 12, 13, 14}

const hNDeathOps = 8

func (x *hW) deathStep(op int) {
	switch op {
	case 0:
		x.opRemoveEntity(x.pickAliveIdx("ent"))
	case 1:
		f := [4]int{fAll, fA, fR1, fRelT}[vChoice("filter", 4)]
		t := Entity{}
		if f == fRelT {
			t = x.pickTarget("filter.tgt")
		}
		b := x.mkFilter(f, t)
		x.opRemoveEntities(b.f, f, t)
	case 2: // new child, ids-only or with values, for zero or an alive parent
		s := [3]uint8{1 << uR1, 1<<uA | 1<<uR1, 1<<uA | 1<<uR2}[vChoice("set", 3)]
		x.opBuilderNew(s, hRelOf(s), true, x.pickOKTarget("tgt"), vChoice("withcomps", 2) == 1)
	case 3:
		var idx [hMaxH]int
		n := 0
		for j := 0; j < x.n; j++ {
			if x.alive[j] && hRelOf(x.set[j]) >= 0 {
				idx[n] = j
				n++
			}
		}
		i := idx[vChoice("ent", n)]
		x.opSetRelation(i, hRelOf(x.set[i]), x.pickOKTarget("tgt"))
	case 4:
		x.opReset()
	case 6: // batch add / remove of other components on children of (possibly dead) targets
		f := [3]int{fR1, fRelT, fA}[vChoice("filter", 3)]
		t := Entity{}
		if f == fRelT {
			t = x.pickTarget("filter.tgt")
		}
		b := x.mkFilter(f, t)
		var add, rem uint8
		if vChoice("dir", 2) == 0 {
			add = 1 << uB
		} else {
			rem = 1 << uA
		}
		ok, m := x.batchLegal(f, t, add, rem)
		vAssume(ok && m >= 1)
		x.opBatchExchange(b.f, f, t, add, rem, 0, vChoice("q", 2) == 1, -1, Entity{})
	case 7: // a child of a (possibly dead) target gains or loses a plain component: it changes node and keeps its target
		var idx [hMaxH]int
		n := 0
		for j := 0; j < x.n; j++ {
			if x.alive[j] && hRelOf(x.set[j]) >= 0 {
				idx[n] = j
				n++
			}
		}
		vAssume(n > 0)
		i := idx[vChoice("ent", n)]
		if x.set[i]&(1<<uA) != 0 {
			x.opExchange(i, 0, 1<<uA, 2)
		} else {
			x.opExchange(i, 1<<uA, 0, 1)
		}
	case 5:
		f, t := x.pickFilter("filter")
		vAssume(f >= fR1)
		b := x.mkFilter(f, t)
		_, m := x.matching(f, t)
		vAssume(m >= 1)
		x.opBatchSetRelation(b.f, f, t, uR1, x.pickOKTarget("newtgt"), vChoice("q", 2) == 1, false)
	}
}

func HC06_TargetDeath() {
	var prof, capInc, relInc int
	if vTier() == 0 {
		prof, capInc, relInc = hConfig()
	} else {
		prof, capInc, relInc = hConfig2()
	}
	x := hNew(prof, 6, capInc, relInc)
	x.prefix(hDeathPrefixes[vChoice("prefix", len(hDeathPrefixes))])
	x.checkStats()
	steps := 1 + vTier()
	for s := 0; s < steps; s++ {
		x.deathStep(vChoice("op", hNDeathOps))
		x.inv()
	}
	x.check()
	x.checkQueries(true)
	x.checkStats()
	vReach("end")
}

func init() { vRegister("HC06_Stats", HC06_Stats) }

// HC06_Stats: World.Stats() (first call and updates of the re-used object) reports
// per node the tables in use while relation tables are created for new targets,
// retired when their target dies, re-used and reset.
func HC06_Stats() {
	_, capInc, relInc := hConfig()
	x := hNew(0, 6, capInc, relInc)
	x.checkStats()
	x.opNewEntity(0)                                 // 0: p1
	x.opBuilderNew(1<<uR1, uR1, true, x.h[0], false) // 1: child of p1
	x.checkStats()
	x.opNewEntity(0) // 2: p2
	x.opNewEntity(0) // 3: p3
	x.opBuilderNew(1<<uR1, uR1, true, x.h[2], false)      // 4: child of p2 (new table slot since the last Stats call)
	x.opBuilderNew(1<<uA|1<<uR1, uR1, true, x.h[3], true) // 5: child of p3 in a new node
	if vChoice("between", 2) == 1 {
		x.checkStats()
	}
	x.opBuilderNew(1<<uR1, uR1, true, x.h[3], false) // 6: child of p3
	x.checkStats()
	// a target dies with an empty / non-empty table
	v := vChoice("victim", 3)
	switch v {
	case 0:
		x.opRemoveEntity(4)
		x.opRemoveEntity(2) // table of p2 is retired
	case 1:
		x.opRemoveEntity(2) // table of p2 stays (non-empty, dead target)
	default:
		x.opRemoveEntity(6)
		x.opRemoveEntity(5)
		x.opRemoveEntity(3) // two nodes retire a table
	}
	x.inv()
	x.checkStats()
	x.opNewEntity(0)                                      // 7: p4 (may re-use the id of a dead parent)
	x.opBuilderNew(1<<uR1, uR1, true, x.h[7], false)      // 8: child of p4: re-uses a retired slot or opens a new one
	x.checkStats()
	if vChoice("reset", 2) == 1 {
		x.opReset()
		x.checkStats()
		x.opNewEntity(0)
		x.opBuilderNew(1<<uR1, uR1, true, x.h[0], false)
		x.checkStats()
	}
	x.inv()
	vReach("end")
}
