package ecs

// HManyTables: more than one page (32) of tables and nodes, and more than 32
// relation tables in one node: the paged storage and the per-node table lists
// cross their page boundaries. Entities, masks, payloads, targets and queries
// are checked against what was created; then one symbolic removal / retarget /
// Reset and a re-check.

func init() {
	vRegister("HManyTables", HManyTables)
	vRegister("HPagedSlice", HPagedSlice)
}

const hManyN = 64 + 36 + 20

func HManyTables() {
	w := NewWorld(NewConfig().WithCapacityIncrement(1 + vChoice("capinc", 2)).WithRelationCapacityIncrement(1))
	var x hW
	x.nu = 6
	for k := 0; k < 6; k++ {
		x.id[k] = hRegister(&w, k)
	}
	ids := x.id
	// a filter registered before any table exists: its table list grows past one page (32), shrinks and grows again
	maReg := All(ids[uA])
	cfA := w.Cache().Register(&maReg)
	marReg := All(ids[uA], ids[uR1]) // 8 zero-target tables + 36 tables of the parents: 44 entries
	cfAR := w.Cache().Register(&marReg)
	var ents [hManyN]Entity
	var sets [hManyN]uint8
	var tgts [hManyN]Entity
	var vals [hManyN]int64
	var alive [hManyN]bool
	n := 0
	// one entity per subset of the 6 components that has at most one relation (48 tables incl. relation nodes)
	for s := 0; s < 64; s++ {
		if hRelCount(uint8(s)) > 1 {
			continue
		}
		var l []ID
		for k := 0; k < 6; k++ {
			if s&(1<<k) != 0 {
				l = append(l, ids[k])
			}
		}
		e := w.NewEntity(l...)
		v := int64(vU64("val"))
		if s&(1<<uA) != 0 {
			(*hA)(w.Get(e, ids[uA])).X = v
		}
		ents[n], sets[n], vals[n], alive[n] = e, uint8(s), v, true
		n++
	}
	// 36 children of 36 different parents in ONE relation node (36 tables: second page)
	first := n
	for p := 0; p < 36; p++ {
		parent := ents[p] // any alive entity can be a target
		e := NewBuilder(&w, ids[uA], ids[uR1]).WithRelation(ids[uR1]).New(parent)
		v := int64(vU64("val"))
		(*hA)(w.Get(e, ids[uA])).X = v
		ents[n], sets[n], vals[n], tgts[n], alive[n] = e, 1<<uA|1<<uR1, v, parent, true
		n++
	}
	verify := func() {
		cntA := 0
		for i := 0; i < n; i++ {
			vAssert(w.Alive(ents[i]) == alive[i], "Alive agrees with the history")
			if !alive[i] {
				continue
			}
			m := w.Mask(ents[i])
			for k := 0; k < 6; k++ {
				vAssert(m.Get(ids[k]) == (sets[i]&(1<<k) != 0), "Mask agrees with the history")
			}
			if sets[i]&(1<<uA) != 0 {
				cntA++
				vAssert((*hA)(w.Get(ents[i], ids[uA])).X == vals[i], "component A holds the last written value")
			}
			if sets[i]&(1<<uR1) != 0 {
				vAssert(w.Relations().Get(ents[i], ids[uR1]) == tgts[i], "relation target is the last assigned target")
			}
		}
		ma := All(ids[uA])
		q := w.Query(&ma)
		vAssert(q.Count() == cntA, "Count equals the number of matching entities")
		seen := 0
		for q.Next() {
			seen++
		}
		vAssert(seen == cntA, "query visits exactly the matching entities")
		qc := w.Query(&cfA)
		vAssert(qc.Count() == cntA, "the registered filter selects like the plain filter (Count)")
		seen = 0
		for qc.Next() {
			seen++
		}
		vAssert(seen == cntA, "the registered filter selects like the plain filter (iteration)")
		cntAR := 0
		for i := 0; i < n; i++ {
			if alive[i] && sets[i]&(1<<uA) != 0 && sets[i]&(1<<uR1) != 0 {
				cntAR++
			}
		}
		qr := w.Query(&cfAR)
		vAssert(qr.Count() == cntAR, "the registered relation-component filter selects like the plain filter (Count)")
		seen = 0
		for qr.Next() {
			seen++
		}
		vAssert(seen == cntAR, "the registered relation-component filter selects like the plain filter (iteration)")
	}
	verify()
	// relation filter for the parent of the 33rd relation table (second page)
	k := first + 32 + vChoice("child", 4)
	mr := All(ids[uR1])
	rf := NewRelationFilter(&mr, tgts[k])
	q := w.Query(&rf)
	found := false
	for q.Next() {
		if q.Entity() == ents[k] {
			found = true
		}
		vAssert(q.Relation(ids[uR1]) == tgts[k], "relation filter selects only entities of its target")
	}
	vAssert(found, "relation filter finds a child stored in a table beyond the first page")
	switch vChoice("op", 5) {
	case 0: // remove any entity
		i := vChoice("ent", n)
		w.RemoveEntity(ents[i])
		alive[i] = false
	case 1: // retarget a child of the second page to a parent of the first page and back
		np := [3]int{first - 1, first - 2, n - 1}[vChoice("parent", 3)] // n-1: an entity id beyond the first 64
		vAssume(np != k)
		w.Relations().Set(ents[k], ids[uR1], ents[np])
		tgts[k] = ents[np]
		if vChoice("then-target-dies", 2) == 1 {
			w.RemoveEntity(ents[np])
			alive[np] = false
		}
	case 2: // batch: all children lose their relation
		w.Batch().Remove(&mr, ids[uR1])
		for i := 0; i < n; i++ {
			if sets[i]&(1<<uR1) != 0 {
				sets[i] &^= 1 << uR1
				tgts[i] = Entity{}
			}
		}
	case 4: // the table list of the registered filter shrinks below one page and grows past it again
		for c := 0; c < 14; c++ { // 44 -> 30 entries: the list passes the page size on the way down
			w.RemoveEntity(ents[first+c]) // child of parent c
			alive[first+c] = false
			w.RemoveEntity(ents[c]) // the parent dies: its empty table is retired
			alive[c] = false
		}
		verify()
		for c := 0; c < 10; c++ { // 30 -> 40 entries
			parent := w.NewEntity()
			ents[n], sets[n], alive[n] = parent, 0, true
			n++
			e := NewBuilder(&w, ids[uA], ids[uR1]).WithRelation(ids[uR1]).New(parent)
			v := int64(vU64("val"))
			(*hA)(w.Get(e, ids[uA])).X = v
			ents[n], sets[n], vals[n], tgts[n], alive[n] = e, 1<<uA|1<<uR1, v, parent, true
			n++
		}
		verify()
		// every remaining old target dies, in one of three orders (tables moved by the earlier swap-removals included)
		ord := vChoice("order", 3)
		for j := 0; j < 22; j++ {
			c := 35 - j // descending
			switch ord {
			case 1:
				c = 14 + j // ascending
			case 2: // from the middle outwards: 25, 24, 26, 23, ...
				if j%2 == 0 {
					c = 25 + j/2
				} else {
					c = 24 - j/2
				}
			}
			w.RemoveEntity(ents[first+c])
			alive[first+c] = false
			w.RemoveEntity(ents[c])
			alive[c] = false
			if j == 1 || j == 5 {
				verify()
			}
		}
	default: // the parents of the second page die: their (non-empty) tables stay, children keep the dead handle
		for p := 32; p < 36; p++ {
			if alive[p] {
				w.RemoveEntity(ents[p])
				alive[p] = false
			}
		}
	}
	verify()
	vReach("end")
}

// HPagedSlice: the paged storage keeps element addresses stable and returns what was stored, across page boundaries.
func HPagedSlice() {
	var p pagedSlice[int64]
	n := [6]int{1, 31, 32, 33, 64, 65}[vChoice("n", 6)]
	var first *int64
	for i := 0; i < n; i++ {
		p.Add(int64(i) * 3)
		if i == 0 {
			first = p.Get(0)
		}
	}
	vAssert(int(p.Len()) == n, "Len counts the added elements")
	vAssert(p.Get(0) == first, "element addresses are stable while the storage grows")
	i := vInt("index")
	vAssume(i >= 0 && i < n)
	vAssert(*p.Get(int32(i)) == int64(i)*3, "Get returns the element stored at the index")
	v := int64(vU64("v"))
	p.Set(int32(i), v)
	j := vInt("other")
	vAssume(j >= 0 && j < n && j != i)
	vAssert(*p.Get(int32(i)) == v && *p.Get(int32(j)) == int64(j)*3, "Set changes exactly one element")
	vReach("end")
}

func init() { vRegister("HBig", HBig) }

type hF0 struct{ V uint8 }
type hF1 struct{ V uint8 }
type hF2 struct{ V uint8 }
type hF3 struct{ V uint8 }
type hF4 struct{ V uint8 }
type hF5 struct{ V uint8 }
type hF6 struct{ V uint8 }
type hF7 struct{ V uint8 }
type hF8 struct{ V uint8 }
type hF9 struct{ V uint8 }
type hF10 struct{ V uint8 }
type hF11 struct{ V uint8 }
type hF12 struct{ V uint8 }
type hF13 struct{ V uint8 }
type hF14 struct{ V uint8 }
type hF15 struct{ V uint8 }
type hF16 struct{ V uint8 }
type hF17 struct{ V uint8 }

// hBigAssign: more than 16 components (one chunk of the id maps) given by value in one call.
func hBigAssign() {
	w := NewWorld()
	hFill(&w, 7)
	fid := [18]ID{ComponentID[hF0](&w), ComponentID[hF1](&w), ComponentID[hF2](&w), ComponentID[hF3](&w), ComponentID[hF4](&w), ComponentID[hF5](&w), ComponentID[hF6](&w), ComponentID[hF7](&w), ComponentID[hF8](&w), ComponentID[hF9](&w), ComponentID[hF10](&w), ComponentID[hF11](&w), ComponentID[hF12](&w), ComponentID[hF13](&w), ComponentID[hF14](&w), ComponentID[hF15](&w), ComponentID[hF16](&w), ComponentID[hF17](&w)}
	all := [18]Component{{ID: fid[0], Comp: &hF0{V: 1}}, {ID: fid[1], Comp: &hF1{V: 2}}, {ID: fid[2], Comp: &hF2{V: 3}}, {ID: fid[3], Comp: &hF3{V: 4}}, {ID: fid[4], Comp: &hF4{V: 5}}, {ID: fid[5], Comp: &hF5{V: 6}}, {ID: fid[6], Comp: &hF6{V: 7}}, {ID: fid[7], Comp: &hF7{V: 8}}, {ID: fid[8], Comp: &hF8{V: 9}}, {ID: fid[9], Comp: &hF9{V: 10}}, {ID: fid[10], Comp: &hF10{V: 11}}, {ID: fid[11], Comp: &hF11{V: 12}}, {ID: fid[12], Comp: &hF12{V: 13}}, {ID: fid[13], Comp: &hF13{V: 14}}, {ID: fid[14], Comp: &hF14{V: 15}}, {ID: fid[15], Comp: &hF15{V: 16}}, {ID: fid[16], Comp: &hF16{V: 17}}, {ID: fid[17], Comp: &hF17{V: 18}}}
	ea := w.NewEntity()
	w.Assign(ea, all[:17]...)
	eb := w.NewEntityWith(all[:18]...)
	ma, mb := w.Mask(ea), w.Mask(eb)
	vAssert(ma.TotalBitsSet() == 17 && mb.TotalBitsSet() == 18, "17 / 18 components given by value in one call")
	vAssert((*hF0)(w.Get(ea, fid[0])).V == 1 && (*hF0)(w.Get(eb, fid[0])).V == 1, "component 0 of 18 assigned in one call holds its value")
	vAssert((*hF1)(w.Get(ea, fid[1])).V == 2 && (*hF1)(w.Get(eb, fid[1])).V == 2, "component 1 of 18 assigned in one call holds its value")
	vAssert((*hF2)(w.Get(ea, fid[2])).V == 3 && (*hF2)(w.Get(eb, fid[2])).V == 3, "component 2 of 18 assigned in one call holds its value")
	vAssert((*hF3)(w.Get(ea, fid[3])).V == 4 && (*hF3)(w.Get(eb, fid[3])).V == 4, "component 3 of 18 assigned in one call holds its value")
	vAssert((*hF4)(w.Get(ea, fid[4])).V == 5 && (*hF4)(w.Get(eb, fid[4])).V == 5, "component 4 of 18 assigned in one call holds its value")
	vAssert((*hF5)(w.Get(ea, fid[5])).V == 6 && (*hF5)(w.Get(eb, fid[5])).V == 6, "component 5 of 18 assigned in one call holds its value")
	vAssert((*hF6)(w.Get(ea, fid[6])).V == 7 && (*hF6)(w.Get(eb, fid[6])).V == 7, "component 6 of 18 assigned in one call holds its value")
	vAssert((*hF7)(w.Get(ea, fid[7])).V == 8 && (*hF7)(w.Get(eb, fid[7])).V == 8, "component 7 of 18 assigned in one call holds its value")
	vAssert((*hF8)(w.Get(ea, fid[8])).V == 9 && (*hF8)(w.Get(eb, fid[8])).V == 9, "component 8 of 18 assigned in one call holds its value")
	vAssert((*hF9)(w.Get(ea, fid[9])).V == 10 && (*hF9)(w.Get(eb, fid[9])).V == 10, "component 9 of 18 assigned in one call holds its value")
	vAssert((*hF10)(w.Get(ea, fid[10])).V == 11 && (*hF10)(w.Get(eb, fid[10])).V == 11, "component 10 of 18 assigned in one call holds its value")
	vAssert((*hF11)(w.Get(ea, fid[11])).V == 12 && (*hF11)(w.Get(eb, fid[11])).V == 12, "component 11 of 18 assigned in one call holds its value")
	vAssert((*hF12)(w.Get(ea, fid[12])).V == 13 && (*hF12)(w.Get(eb, fid[12])).V == 13, "component 12 of 18 assigned in one call holds its value")
	vAssert((*hF13)(w.Get(ea, fid[13])).V == 14 && (*hF13)(w.Get(eb, fid[13])).V == 14, "component 13 of 18 assigned in one call holds its value")
	vAssert((*hF14)(w.Get(ea, fid[14])).V == 15 && (*hF14)(w.Get(eb, fid[14])).V == 15, "component 14 of 18 assigned in one call holds its value")
	vAssert((*hF15)(w.Get(ea, fid[15])).V == 16 && (*hF15)(w.Get(eb, fid[15])).V == 16, "component 15 of 18 assigned in one call holds its value")
	vAssert((*hF16)(w.Get(ea, fid[16])).V == 17 && (*hF16)(w.Get(eb, fid[16])).V == 17, "component 16 of 18 assigned in one call holds its value")
	ec := w.NewEntity(fid[17])
	NewBuilderWith(&w, all[:17]...).Add(ec)
	mc := w.Mask(ec)
	vAssert(mc.TotalBitsSet() == 18 && (*hF16)(w.Get(ec, fid[16])).V == 17, "Builder.Add of 17 component values")
}


const hBigN = 300

// HBig: counts beyond the natural word / byte thresholds of the implementation:
// 300 entities in one table (ids and rows above 255, third and later growths,
// batch creation larger than twice the capacity increment), an entity with id
// above 255 as relation target, 20 components added and 18 removed in one call,
// 300 registered filters (more than one 64-bit word / one byte of filter ids), 17 / 18 components by value in one call.
func HBig() {
	capInc := [3]int{1, 7, 128}[vChoice("capinc", 3)]
	w := NewWorld(NewConfig().WithCapacityIncrement(capInc).WithRelationCapacityIncrement(1 + vChoice("relinc", 2)))
	idA := ComponentID[hA](&w)
	idR := ComponentID[hR1](&w)
	hFill(&w, 30)
	var ents [hBigN]Entity
	base := int64(vU64("base"))
	half := hBigN / 2
	for i := 0; i < half; i++ {
		ents[i] = w.NewEntity(idA)
		(*hA)(w.Get(ents[i], idA)).X = base + int64(i)
	}
	// the second half in one batch (larger than twice every capacity increment but 128)
	q := NewBuilder(&w, idA).NewBatchQ(hBigN - half)
	vAssert(q.Count() == hBigN-half, "batch query counts the created entities")
	i := half
	for q.Next() {
		ents[i] = q.Entity()
		(*hA)(q.Get(idA)).X = base + int64(i)
		i++
	}
	vAssert(i == hBigN, "batch creation creates the requested number of entities")
	for i := 0; i < hBigN; i++ {
		vAssert(ents[i] == Entity{eid(i + 1), 0}, "a fresh world issues ids densely")
	}
	// remove one from the middle: the last row is swapped in; every other value stays
	victim := [3]int{0, 100, 256}[vChoice("victim", 3)]
	w.RemoveEntity(ents[victim])
	for i := 0; i < hBigN; i++ {
		if i == victim {
			vAssert(!w.Alive(ents[i]), "a removed entity is dead")
			continue
		}
		vAssert(w.Alive(ents[i]) && (*hA)(w.Get(ents[i], idA)).X == base+int64(i), "every component keeps its value in a table of 300 rows")
	}
	all := All(idA)
	qc := w.Query(&all)
	vAssert(qc.Count() == hBigN-1, "Count of a large table")
	qc.Close()
	vAssert(w.Stats().Entities.Used == hBigN-1, "Stats().Entities.Used with more than 255 entities")
	// the recycled id comes back with generation 1; an entity with id above 255 is used as a relation target
	again := w.NewEntity(idA)
	vAssert(again == Entity{ents[victim].id, 1}, "the recycled id is re-issued with the next generation")
	parent := ents[hBigN-1]
	c1 := NewBuilder(&w, idR).WithRelation(idR).New(parent)
	c2 := NewBuilder(&w, idR).WithRelation(idR).New(ents[64])
	vAssert(w.Relations().Get(c1, idR) == parent && w.Relations().Get(c2, idR) == ents[64], "relation targets with ids above 255 and at 64")
	rf := NewRelationFilter(All(idR), parent)
	qr := w.Query(&rf)
	vAssert(qr.Count() == 1, "relation filter for a target with id above 255")
	qr.Close()
	w.RemoveEntity(parent)
	vAssert(w.Alive(c1) && w.Relations().Get(c1, idR) == parent, "child of a dead target with id above 255 keeps the handle")
	// many components in one call
	var many [20]ID
	for k := 0; k < 20; k++ {
		many[k] = ID{uint8(2 + k)} // filler components 2..21
	}
	e := w.NewEntity(idA)
	w.Add(e, many[:]...)
	m := w.Mask(e)
	vAssert(m.TotalBitsSet() == 21, "20 components added in one call")
	w.Remove(e, many[:18]...)
	m = w.Mask(e)
	vAssert(m.TotalBitsSet() == 3 && m.Get(idA) && m.Get(many[18]) && m.Get(many[19]) && (*hA)(w.Get(e, idA)).X == 0, "18 components removed in one call")
	// 70 registrations of filters
	const nReg = 300 // more than 256: filter ids beyond one byte
	var masks [nReg]Mask
	var cfs [nReg]CachedFilter
	for k := 0; k < nReg; k++ {
		if k%2 == 0 {
			masks[k] = All(idA)
		} else {
			masks[k] = All(idR)
		}
		cfs[k] = w.Cache().Register(&masks[k])
	}
	vAssert(w.Stats().CachedFilters == nReg, "Stats().CachedFilters counts the registrations")
	w.Cache().Unregister(&cfs[0])
	w.Cache().Unregister(&cfs[64])
	fresh := w.NewEntity(idA, many[0]) // a new table reaches every registered filter that matches
	for _, k := range [6]int{2, 62, 66, 68, 256, 298} {
		qk := w.Query(&cfs[k])
		vAssert(qk.Count() == hBigN+1, "a registered filter beyond the 64th registration selects like the plain filter")
		qk.Close()
	}
	q65 := w.Query(&cfs[65])
	vAssert(q65.Count() == 2, "the 66th registration (relation component) selects the two children")
	q65.Close()
	_ = fresh
	hBigAssign()
	vReach("end")
}
