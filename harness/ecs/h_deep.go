package ecs

// HDeep: histories of k symbolic operations from an EMPTY world (complementing
// the prefix-based one-step harnesses): small argument ranges, but every
// interleaving of creation, relation-target change, removal (single / batch),
// component add/remove and Reset up to length k, with a registered filter
// watching. After every step: structural invariant; at the end: all observables
// vs the model, plain and registered queries, handle-sequence model.

func init() { vRegister("HDeep", HDeep) }

func (x *hW) deepStep(op int) {
	A, B, R1 := uint8(1<<uA), uint8(1<<uB), uint8(1<<uR1)
	switch op {
	case 0:
		x.opNewEntityWith(A)
	case 1:
		x.opBuilderNew(A|R1, uR1, true, x.pickOKTarget("tgt"), vChoice("withcomps", 2) == 1)
	case 2:
		x.opRemoveEntity(x.pickAliveIdx("ent"))
	case 3: // retarget the first or the last relation-carrying entity
		first, last := -1, -1
		for j := 0; j < x.n; j++ {
			if x.alive[j] && hRelOf(x.set[j]) >= 0 {
				if first < 0 {
					first = j
				}
				last = j
			}
		}
		vAssume(first >= 0)
		i := first
		if last != first && vChoice("which", 2) == 1 {
			i = last
		}
		x.opSetRelation(i, uR1, x.pickOKTarget("tgt"))
	case 4: // add or remove component B
		i := x.pickAliveIdx("ent")
		if x.set[i]&B == 0 {
			x.opExchange(i, B, 0, 1)
		} else {
			x.opExchange(i, 0, B, 2)
		}
	case 5:
		x.opReset()
	case 6:
		f := [3]int{fA, fR1, fRelT}[vChoice("filter", 3)]
		t := Entity{}
		if f == fRelT {
			t = x.pickTarget("filter.tgt")
		}
		b := x.mkFilter(f, t)
		x.opRemoveEntities(b.f, f, t)
	case 7:
		b := x.mkFilter(fR1, Entity{})
		_, m := x.matching(fR1, Entity{})
		vAssume(m >= 1)
		x.opBatchSetRelation(b.f, fR1, Entity{}, uR1, x.pickOKTarget("newtgt"), false, false)
	case 8: // plain entity that can serve as a target
		x.opNewEntity(0)
	case 9: // batch add / remove of component B through a mask or relation filter
		f := [2]int{fA, fR1}[vChoice("filter", 2)]
		b := x.mkFilter(f, Entity{})
		var add, rem uint8
		if vChoice("dir", 2) == 0 {
			add = B
		} else {
			rem = B
		}
		ok, m := x.batchLegal(f, Entity{}, add, rem)
		vAssume(ok && m >= 1)
		x.opBatchExchange(b.f, f, Entity{}, add, rem, 0, vChoice("q", 2) == 1, -1, Entity{})
	}
}

func HDeep() {
	capInc := 1 + vChoice("capinc", 2)
	x := hNew(vChoice("profile", 2), 6, capInc, 1)
	// a registered filter from the start
	fsel := vChoice("registered", 3)
	f := [3]int{fA, fR1, fRelT}[fsel]
	t := Entity{}
	if f == fRelT {
		t = Entity{1, 0} // the first handle of a world
	}
	b := x.mkFilter(f, t)
	cf := x.w.Cache().Register(b.f)
	steps := 3 + vTier()
	for s := 0; s < steps; s++ {
		x.deepStep(vChoice("op", 10))
		x.inv()
	}
	x.check()
	x.sameSelection(&cf, b.f)
	x.checkQueries(true)
	vReach("end")
}

func init() { vRegister("HDeepEvents", HDeepEvents) }

// HDeepEvents: the event oracle of C11 after every step of a k-step history from an empty world.
func HDeepEvents() {
	x := hNew(vChoice("profile", 2), 6, 1+vChoice("capinc", 2), 1)
	rec := &hRec{x: x, subs: 63}
	x.w.SetListener(rec)
	x.rec = rec
	steps := 3 + vTier()
	for s := 0; s < steps; s++ {
		rec.n = 0
		before := x.snap()
		op := vChoice("op", 10)
		x.deepStep(op)
		x.checkEvents(rec, &before, op == 5)
		x.inv()
	}
	x.check()
	vReach("end")
}
