package ecs

// C05: relation targets. Every target-taking API is driven with every kind of
// target (zero, alive, dead, dead with recycled id, the entity itself); the
// model decides legality per the documentation.

func init() {
	vRegister("HC05_Rel", HC05_Rel)
}

// relation-relevant prefixes
var hRelPrefixes = [6]int{3, 4, 5, 7, 8, 1}

// opWrongRelation: relation calls naming a component that is not the entity's relation must panic.
func (x *hW) opWrongRelation(i int, k int, api int) {
	e := x.h[i]
	legal := x.alive[i] && hRelOf(x.set[i]) == k
	vAssume(!legal)
	var pan bool
	switch api {
	case 0:
		pan, _ = vCatch(func() { x.w.Relations().Get(e, x.id[k]) })
	case 1:
		pan, _ = vCatch(func() { x.w.Relations().Set(e, x.id[k], Entity{}) })
	default:
		// Query.Relation at the entity's position
		m := All()
		q := x.w.Query(&m)
		found := false
		for q.Next() {
			if q.Entity() == e {
				found = true
				pan, _ = vCatch(func() { q.Relation(x.id[k]) })
				q.Close()
				break
			}
		}
		vAssume(found)
	}
	vAssert(pan, "relation call on a missing or non-relation component panics")
}

// opBuilderAddWith: Builder built from component values, Add(e, t) (assign path).
func (x *hW) opBuilderAddWith(i int, add uint8, r int, t Entity) {
	ns := x.set[i] | add
	legal := x.exchangeLegal(i, add, 0) && add != 0 && ns&(1<<r) != 0 && hIsRel(r) && x.tgtOK(t) && x.locks == 0
	v := hSymVals("badd")
	e := x.h[i]
	comps := x.comps(add, &v)
	pan, msg := vCatch(func() { NewBuilderWith(&x.w, comps...).WithRelation(x.id[r]).Add(e, t) })
	x.expectPanic(pan, msg, !legal, "Builder.Add with component values and target panics exactly when illegal")
	if !pan {
		x.mExchange(i, add, 0, true, t)
		x.mSetVals(i, add, &v)
	}
}

const hNRelOps = 8

func (x *hW) relStep(op int) {
	switch op {
	case 0: // creation with target
		s := x.pickLegalSet("set", 1)
		x.opBuilderNew(s, hRelOf(s), true, x.pickTarget("tgt"), vChoice("withcomps", 2) == 1)
	case 1: // Relations.Set
		var idx [hMaxH]int
		n := 0
		for j := 0; j < x.n; j++ {
			if x.alive[j] && hRelOf(x.set[j]) >= 0 {
				idx[n] = j
				n++
			}
		}
		i := idx[vChoice("ent", n)]
		x.opSetRelation(i, hRelOf(x.set[i]), x.pickTarget("tgt"))
	case 2: // Relations.Exchange / Builder.Add (ids) / Builder.Add (values)
		i := x.pickAliveIdx("ent")
		api := vChoice("api", 3)
		wantRem := -1
		if api >= 1 {
			wantRem = 0
		}
		add, rem := x.pickXchg(i, -1, wantRem, true)
		r := hRelOf((x.set[i] &^ rem) | add)
		t := x.pickTarget("tgt")
		if api == 2 {
			x.opBuilderAddWith(i, add, r, t)
		} else {
			x.opRelExchange(i, add, rem, r, t, api)
		}
	case 3: // batch creation with target
		s := [3]uint8{1 << uR1, 1<<uA | 1<<uR1, 1<<uA | 1<<uR2}[vChoice("set", 3)]
		cnt := 1 + vChoice("count", 2)
		vAssume(x.n+cnt <= hMaxH)
		x.opNewBatch(s, cnt, hRelOf(s), true, x.pickTarget("tgt"), vChoice("withcomps", 2) == 1, vChoice("q", 2) == 1)
	case 4: // batch SetRelation
		f, t := x.pickFilter("filter")
		vAssume(f >= fR1)
		b := x.mkFilter(f, t)
		x.opBatchSetRelation(b.f, f, t, uR1, x.pickTarget("newtgt"), vChoice("q", 2) == 1, vChoice("via", 2) == 1)
	case 5: // Relations.ExchangeBatch
		f, t := x.pickFilter("filter")
		b := x.mkFilter(f, t)
		add, rem := x.pickBatchXchg(f, t, true)
		rel := -1
		for j := 0; j < x.n; j++ {
			if x.modelMatch(j, f, t) {
				r := hRelOf((x.set[j] &^ rem) | add)
				vAssume(rel < 0 || rel == r)
				rel = r
			}
		}
		x.opBatchExchange(b.f, f, t, add, rem, 0, vChoice("q", 2) == 1, rel, x.pickTarget("newtgt"))
	case 6: // relation calls naming the wrong component
		i := x.pickAliveIdx("ent")
		k := vChoice("comp", x.nu)
		x.opWrongRelation(i, k, vChoice("api", 3))
	case 7: // plain Exchange on an entity (relation swap / removal / unrelated components)
		i := x.pickAliveIdx("ent")
		add, rem := x.pickXchg(i, -1, -1, false)
		x.opExchange(i, add, rem, 0)
	}
}

func HC05_Rel() {
	prof, capInc, relInc := hConfig()
	x := hNew(prof, 6, capInc, relInc)
	x.prefix(hRelPrefixes[vChoice("prefix", len(hRelPrefixes))])
	x.relStep(vChoice("op", hNRelOps))
	x.check()
	x.inv()
	x.checkQueries(true)
	vReach("end")
}
