package ecs

import (
	"reflect"
	"unsafe"
)

// Shared world-level harness library: component universe, reference model M,
// observation check (world vs. model), operations with legality per the docs.

const (
	uA  = 0 // hA{int64}          8/8
	uB  = 1 // hB{3 x int32}     12/4
	uC  = 2 // hC{uint8}          1/1
	uZ  = 3 // hZ{}               0
	uR1 = 4 // hR1{Relation;int64}
	uR2 = 5 // hR2{Relation}      0, relation
	uP  = 6 // hP{*int64}
	uS  = 7 // hS{string}
	hNU = 8
)

// hP: the pointer sits inside an array field (reflect.Array kind), at a non-zero offset
type hP struct{ P [2]*int64 }

func hMkP(p *int64) *hP { return &hP{P: [2]*int64{nil, p}} }
type hS struct{ S string }

const hMaxH = 10

// hW is a world together with its reference model.
type hW struct {
	w  World
	id [hNU]ID
	nu int // universe size in use (ids[0:nu])

	n     int // handles issued since creation / last reset
	h     [hMaxH]Entity
	alive [hMaxH]bool
	set   [hMaxH]uint8
	tgt   [hMaxH]Entity
	a     [hMaxH]int64
	b     [hMaxH][3]int32
	c     [hMaxH]uint8
	r1    [hMaxH]int64
	p     [hMaxH]*int64
	s     [hMaxH]string

	// dead handles of before the last reset (must stay distinguishable only by generation)
	locks   int
	lastPan bool
	lastMsg string
	rec     *hRec // recording listener, if installed (C11)

	// model of the handle sequence: ids are issued densely from 1 with generation 0,
	// removed ids are re-issued last-in-first-out with the generation incremented.
	pKnown bool // false once an operation recycled ids in an order the model does not track
	pLen   int  // number of pool slots in use (incl. slot 0)
	pGen   [2 * hMaxH]uint32
	pFree  [2 * hMaxH]int
	pNFree int
}

// pExpect returns the handle a creation must return now (ok=false: not predicted).
func (x *hW) pExpect() (Entity, bool) {
	if !x.pKnown {
		return Entity{}, false
	}
	if x.pNFree > 0 {
		x.pNFree--
		id := x.pFree[x.pNFree]
		return Entity{eid(id), x.pGen[id]}, true
	}
	id := x.pLen
	if id >= 2*hMaxH {
		x.pKnown = false
		return Entity{}, false
	}
	x.pLen++
	x.pGen[id] = 0
	return Entity{eid(id), 0}, true
}

func (x *hW) pRecycle(e Entity) {
	if !x.pKnown {
		return
	}
	id := int(e.id)
	if id >= 2*hMaxH {
		x.pKnown = false
		return
	}
	x.pGen[id] = e.gen + 1
	x.pFree[x.pNFree] = id
	x.pNFree++
}

func (x *hW) pReset() {
	x.pKnown, x.pLen, x.pNFree = true, 1, 0
}

func hIsRel(k int) bool { return k == uR1 || k == uR2 }

func hRelOf(set uint8) int {
	if set&(1<<uR1) != 0 {
		return uR1
	}
	if set&(1<<uR2) != 0 {
		return uR2
	}
	return -1
}

func hRelCount(set uint8) int {
	n := 0
	if set&(1<<uR1) != 0 {
		n++
	}
	if set&(1<<uR2) != 0 {
		n++
	}
	return n
}

var hByteType = reflect.TypeOf(uint8(0))

// hFill registers filler component types until the registry holds n types.
func hFill(w *World, n int) {
	for w.registry.Count() < n {
		w.componentID(reflect.ArrayOf(w.registry.Count()+1, hByteType))
	}
}

// hProfiles: component IDs of the universe per placement profile.
var hProfiles = [4][hNU]uint8{
	{0, 1, 2, 3, 4, 5, 6, 7},
	{15, 16, 17, 31, 32, 47, 48, 49},
	{15, 16, 17, 63, 64, 65, 127, 128},
	{128, 191, 192, 223, 224, 238, 239, 240},
}

func hRegister(w *World, k int) ID {
	switch k {
	case uA:
		return ComponentID[hA](w)
	case uB:
		return ComponentID[hB](w)
	case uC:
		return ComponentID[hC](w)
	case uZ:
		return ComponentID[hZ](w)
	case uR1:
		return ComponentID[hR1](w)
	case uR2:
		return ComponentID[hR2](w)
	case uP:
		return ComponentID[hP](w)
	default:
		return ComponentID[hS](w)
	}
}

// hNew creates a world with the universe registered at the profile's IDs.
func hNew(profile, nu, capInc, relCapInc int) *hW {
	x := &hW{nu: nu}
	x.pReset()
	x.w = NewWorld(NewConfig().WithCapacityIncrement(capInc).WithRelationCapacityIncrement(relCapInc))
	for k := 0; k < nu; k++ {
		hFill(&x.w, int(hProfiles[profile][k]))
		x.id[k] = hRegister(&x.w, k)
	}
	return x
}

func (x *hW) ids(set uint8) []ID {
	out := make([]ID, 0, hNU)
	for k := 0; k < x.nu; k++ {
		if set&(1<<k) != 0 {
			out = append(out, x.id[k])
		}
	}
	return out
}

// comps builds Component values for set with fresh symbolic payloads, recorded in vals.
type hVals struct {
	a  int64
	b  [3]int32
	c  uint8
	r1 int64
}

func hSymVals(name string) hVals {
	return hVals{a: int64(vU64(name + ".a")), b: [3]int32{int32(vU32(name + ".b0")), int32(vU32(name + ".b1")), int32(vU32(name + ".b2"))},
		c: vU8(name + ".c"), r1: int64(vU64(name + ".r1"))}
}

func (x *hW) comps(set uint8, v *hVals) []Component {
	out := make([]Component, 0, hNU)
	for k := 0; k < x.nu; k++ {
		if set&(1<<k) == 0 {
			continue
		}
		switch k {
		case uA:
			out = append(out, Component{ID: x.id[k], Comp: &hA{X: v.a}})
		case uB:
			out = append(out, Component{ID: x.id[k], Comp: &hB{A: v.b[0], B: v.b[1], C: v.b[2]}})
		case uC:
			out = append(out, Component{ID: x.id[k], Comp: &hC{V: v.c}})
		case uZ:
			out = append(out, Component{ID: x.id[k], Comp: &hZ{}})
		case uR1:
			out = append(out, Component{ID: x.id[k], Comp: &hR1{V: v.r1}})
		case uR2:
			out = append(out, Component{ID: x.id[k], Comp: &hR2{}})
		case uP:
			out = append(out, Component{ID: x.id[k], Comp: &hP{}})
		default:
			out = append(out, Component{ID: x.id[k], Comp: &hS{}})
		}
	}
	return out
}

// ---- model updates ----

func (x *hW) mZero(i int, added uint8) {
	if added&(1<<uA) != 0 {
		x.a[i] = 0
	}
	if added&(1<<uB) != 0 {
		x.b[i] = [3]int32{}
	}
	if added&(1<<uC) != 0 {
		x.c[i] = 0
	}
	if added&(1<<uR1) != 0 {
		x.r1[i] = 0
	}
	if added&(1<<uP) != 0 {
		x.p[i] = nil
	}
	if added&(1<<uS) != 0 {
		x.s[i] = ""
	}
}

func (x *hW) mSetVals(i int, set uint8, v *hVals) {
	if set&(1<<uA) != 0 {
		x.a[i] = v.a
	}
	if set&(1<<uB) != 0 {
		x.b[i] = v.b
	}
	if set&(1<<uC) != 0 {
		x.c[i] = v.c
	}
	if set&(1<<uR1) != 0 {
		x.r1[i] = v.r1
	}
}

// mCreated records a newly issued handle.
func (x *hW) mCreated(e Entity, set uint8, tgt Entity) int {
	i := x.n
	vBound(i < hMaxH, "handles<=10")
	// a new handle differs from every handle issued since the last reset
	for j := 0; j < x.n; j++ {
		vAssert(x.h[j] != e, "new handle differs from every handle issued before")
	}
	vAssert(!e.IsZero(), "new handle is not the zero entity")
	if want, ok := x.pExpect(); ok {
		vAssert(e == want, "creation issues the handle a fresh world with the same history would issue (dense ids, last-removed id first, generation + 1)")
	}
	x.h[i] = e
	x.alive[i] = true
	x.set[i] = set
	x.tgt[i] = tgt
	x.mZero(i, 0xff)
	x.n++
	return i
}

func (x *hW) tgtOK(t Entity) bool {
	if t.IsZero() {
		return true
	}
	for j := 0; j < x.n; j++ {
		if x.h[j] == t {
			return x.alive[j]
		}
	}
	return false
}

func (x *hW) aliveCount() int {
	n := 0
	for j := 0; j < x.n; j++ {
		if x.alive[j] {
			n++
		}
	}
	return n
}

// ---- observation: world vs model ----

func (x *hW) checkEntity(i int) {
	w := &x.w
	e := x.h[i]
	vAssert(w.Alive(e) == x.alive[i], "Alive agrees with the history")
	if !x.alive[i] {
		return
	}
	mask := w.Mask(e)
	ids := w.Ids(e)
	cnt := 0
	for k := 0; k < x.nu; k++ {
		has := x.set[i]&(1<<k) != 0
		if has {
			cnt++
		}
		vAssert(w.Has(e, x.id[k]) == has, "Has agrees with the history")
		vAssert(mask.Get(x.id[k]) == has, "Mask agrees with the history")
		ptr := w.Get(e, x.id[k])
		vAssert((ptr != nil) == has, "Get is non-nil exactly for present components")
		inIds := false
		for _, id := range ids {
			if id == x.id[k] {
				inIds = true
			}
		}
		vAssert(inIds == has, "Ids agrees with the history")
		if !has {
			continue
		}
		switch k {
		case uA:
			vAssert((*hA)(ptr).X == x.a[i], "component A holds the last written value")
		case uB:
			bp := (*hB)(ptr)
			vAssert(vAnd(bp.A == x.b[i][0], vAnd(bp.B == x.b[i][1], bp.C == x.b[i][2])), "component B holds the last written value")
		case uC:
			vAssert((*hC)(ptr).V == x.c[i], "component C holds the last written value")
		case uR1:
			vAssert((*hR1)(ptr).V == x.r1[i], "component R1 holds the last written value")
		case uP:
			vAssert((*hP)(ptr).P[1] == x.p[i] && (*hP)(ptr).P[0] == nil, "component P holds the last written pointer")
		case uS:
			vAssert((*hS)(ptr).S == x.s[i], "component S holds the last written string")
		}
	}
	vAssert(mask.TotalBitsSet() == cnt, "Mask holds no component outside the history")
	vAssert(len(ids) == cnt, "Ids holds no component outside the history")
	for k := range ids { // the result is a copy the caller may manipulate
		ids[k] = ID{}
	}
	if r := hRelOf(x.set[i]); r >= 0 {
		vAssert(w.Relations().Get(e, x.id[r]) == x.tgt[i], "relation target is the last assigned target")
	}
}

func (x *hW) check() {
	for i := 0; i < x.n; i++ {
		x.checkEntity(i)
	}
	vAssert(x.w.entityPool.Len() == x.aliveCount(), "alive entities = creations - removals")
	vAssert(!x.w.Alive(Entity{}), "zero entity is never alive")
}

// hFilterKind enumerates the filter family.
const (
	fAll     = iota // All()
	fA              // All(A)
	fAB             // All(A,B)
	fAnotB          // All(A).Without(B)
	fAexcl          // All(A).Exclusive()
	fR1             // All(R1)
	fRelT           // RelationFilter{All(R1), T}
	fRelAT          // RelationFilter{All(A,R1), T}
	hNFilters
)

// modelMatch: does entity i match filter kind f (target t for relation filters)?
func (x *hW) modelMatch(i int, f int, t Entity) bool {
	if !x.alive[i] {
		return false
	}
	s := x.set[i]
	switch f {
	case fAll:
		return true
	case fA:
		return s&(1<<uA) != 0
	case fAB:
		return s&(1<<uA) != 0 && s&(1<<uB) != 0
	case fAnotB:
		return s&(1<<uA) != 0 && s&(1<<uB) == 0
	case fAexcl:
		return s == 1<<uA
	case fR1:
		return s&(1<<uR1) != 0
	case fRelT:
		return s&(1<<uR1) != 0 && x.tgt[i] == t
	default:
		return s&(1<<uA) != 0 && s&(1<<uR1) != 0 && x.tgt[i] == t
	}
}

// hFilterBox keeps filter values alive behind the Filter interface.
type hFilterBox struct {
	m  Mask
	mf MaskFilter
	rf RelationFilter
	f  Filter
}

func (x *hW) mkFilter(f int, t Entity) *hFilterBox {
	b := &hFilterBox{}
	switch f {
	case fAll:
		b.m = All()
		b.f = &b.m
	case fA:
		b.m = All(x.id[uA])
		b.f = &b.m
	case fAB:
		b.m = All(x.id[uA], x.id[uB])
		b.f = &b.m
	case fAnotB:
		b.mf = All(x.id[uA]).Without(x.id[uB])
		b.f = &b.mf
	case fAexcl:
		b.mf = All(x.id[uA]).Exclusive()
		b.f = &b.mf
	case fR1:
		b.m = All(x.id[uR1])
		b.f = &b.m
	case fRelT:
		b.m = All(x.id[uR1])
		b.rf = NewRelationFilter(&b.m, t)
		b.f = &b.rf
	default:
		b.m = All(x.id[uA], x.id[uR1])
		b.rf = NewRelationFilter(&b.m, t)
		b.f = &b.rf
	}
	return b
}

// checkQuery iterates a query over filter f and compares with the model:
// every visited entity matches, none twice, all matching ones visited, Count agrees.
func (x *hW) checkQuery(flt Filter, f int, t Entity) {
	w := &x.w
	var seen [hMaxH]bool
	q := w.Query(flt)
	cnt := q.Count()
	visited := 0
	for q.Next() {
		e := q.Entity()
		idx := -1
		for j := 0; j < x.n; j++ {
			if x.h[j] == e {
				idx = j
			}
		}
		vAssert(idx >= 0, "query visits only issued handles")
		if idx < 0 {
			continue
		}
		vAssert(!seen[idx], "query visits no entity twice")
		seen[idx] = true
		vAssert(x.modelMatch(idx, f, t), "query visits only alive matching entities")
		// accessors at the position agree with the world
		vAssert(q.Mask() == w.Mask(e), "query Mask agrees with World.Mask")
		for k := 0; k < x.nu; k++ {
			vAssert(q.Has(x.id[k]) == w.Has(e, x.id[k]), "query Has agrees with World.Has")
			vAssert(q.Get(x.id[k]) == w.Get(e, x.id[k]), "query Get agrees with World.Get")
		}
		if r := hRelOf(x.set[idx]); r >= 0 {
			vAssert(q.Relation(x.id[r]) == x.tgt[idx], "query Relation is the current target")
		}
		qids := q.Ids()
		qm := q.Mask()
		vAssert(len(qids) == qm.TotalBitsSet(), "query Ids lists exactly the components of the entity")
		for _, id := range qids {
			vAssert(qm.Get(id), "query Ids lists only components of the entity")
		}
		for k := range qids { // the result is documented as a copy the caller may manipulate
			qids[k] = ID{}
		}
		visited++
	}
	vAssert(!w.IsLocked() || x.locks > 0, "exhausted query releases its lock")
	want := 0
	for j := 0; j < x.n; j++ {
		if x.modelMatch(j, f, t) {
			want++
			vAssert(seen[j], "query visits every matching entity")
		}
	}
	vAssert(visited == want, "query visits exactly the matching entities")
	vAssert(cnt == want, "Count equals the number of matching entities")
}

// checkQueries runs the mask-filter family plus relation filters for every
// issued handle and the zero entity as target.
func (x *hW) checkQueries(withRel bool) {
	for f := fAll; f <= fR1; f++ {
		if (f == fR1) && x.nu <= uR1 {
			continue
		}
		if (f == fAB || f == fAnotB) && x.nu <= uB {
			continue
		}
		b := x.mkFilter(f, Entity{})
		x.checkQuery(b.f, f, Entity{})
	}
	if !withRel || x.nu <= uR1 {
		return
	}
	for j := -1; j < x.n; j++ {
		t := Entity{}
		if j >= 0 {
			t = x.h[j]
		}
		b := x.mkFilter(fRelT, t)
		x.checkQuery(b.f, fRelT, t)
	}
}

// ---- structural invariant (reads internals) ----

func (x *hW) inv() {
	w := &x.w
	p := &w.entityPool
	vAssert(len(w.entities) == len(p.entities), "INV: entity index and pool have the same length")
	vAssert(p.entities[0].id == 0 || p.available > 0, "INV: slot 0 reserved")
	// free list: available distinct non-zero dead slots reachable from next
	var onList [64]bool
	cur := p.next
	for k := uint32(0); k < p.available; k++ {
		vAssert(cur != 0 && int(cur) < len(p.entities), "INV: free list stays inside the pool")
		if cur == 0 || int(cur) >= len(p.entities) {
			return
		}
		vAssert(!onList[cur], "INV: free list has no cycle")
		onList[cur] = true
		cur = p.entities[cur].id
	}
	for i := 1; i < len(p.entities); i++ {
		if onList[i] {
			vAssert(w.entities[i].arch == nil, "INV: recycled id has no table")
			continue
		}
		vAssert(p.entities[i].id == eid(i), "INV: alive slot is self-indexed")
		idx := w.entities[i]
		vAssert(idx.arch != nil, "INV: alive id has a table")
		if idx.arch == nil {
			continue
		}
		vAssert(idx.index < idx.arch.len, "INV: row below table length")
		if idx.index < idx.arch.len {
			vAssert(idx.arch.GetEntity(idx.index) == p.entities[i], "INV: row holds the entity")
		}
	}
	// tables
	total := uint32(0)
	nn := w.nodes.Len()
	for ni := int32(0); ni < nn; ni++ {
		nd := w.nodes.Get(ni)
		if !nd.IsActive {
			continue
		}
		arches := nd.Archetypes()
		na := arches.Len()
		active := 0
		for ai := int32(0); ai < na; ai++ {
			a := arches.Get(ai)
			if !a.IsActive() {
				vAssert(a.len == 0, "INV: retired table is empty")
				isFree := 0
				for _, fi := range nd.freeIndices {
					if fi == ai {
						isFree++
					}
				}
				vAssert(isFree == 1, "INV: retired table is on the free list exactly once")
				x.invRowsZero(a, 0)
				continue
			}
			active++
			total += a.len
			vAssert(a.len <= a.cap, "INV: len <= cap")
			vAssert(a.Mask == nd.Mask, "INV: table mask = node mask")
			if nd.HasRelation {
				m, ok := nd.archetypeMap[a.RelationTarget]
				vAssert(ok && m == a, "INV: active relation table is mapped under its target")
				vAssert(a.index == ai, "INV: table index")
			}
			for r := uint32(0); r < a.len; r++ {
				e := a.GetEntity(r)
				vAssert(int(e.id) < len(w.entities) && w.entities[e.id].arch == a && w.entities[e.id].index == r, "INV: row entity points back to its row")
			}
			for _, id := range nd.Ids {
				lay := a.getLayout(id)
				vAssert(lay.pointer != nil, "INV: layout present for table component")
			}
			x.invRowsZero(a, a.len)
		}
		if nd.HasRelation {
			vAssert(len(nd.archetypeMap) == active, "INV: target map holds exactly the active tables")
			vAssert(len(nd.freeIndices) == int(na)-active, "INV: free list holds exactly the retired tables")
			for _, fi := range nd.freeIndices {
				vAssert(fi >= 0 && fi < na, "INV: free index in range")
			}
		}
	}
	vAssert(int(total) == p.Len(), "INV: table rows = alive entities")
	// filter cache: every entry lists exactly what getArchetypes computes now
	c := &w.filterCache
	for i := range c.filters {
		e := &c.filters[i]
		fresh := w.getArchetypes(e.Filter)
		vAssert(len(fresh) == len(e.Archetypes.pointers), "INV: cached table list has the right size")
		for _, a := range fresh {
			n := 0
			for _, b := range e.Archetypes.pointers {
				if a == b {
					n++
				}
			}
			vAssert(n == 1, "INV: cached table list holds every selected table once")
		}
		if e.Indices != nil {
			for j, a := range e.Archetypes.pointers {
				if a.HasRelation() {
					k, ok := e.Indices[a]
					vAssert(ok && k == j, "INV: cache index map is current")
				}
			}
		}
	}
}

// invRowsZero: every component row >= from is all-zero.
func (x *hW) invRowsZero(a *archetype, from uint32) {
	for _, id := range a.node.Ids {
		lay := a.getLayout(id)
		if lay.pointer == nil || lay.itemSize == 0 {
			continue
		}
		n := (a.cap - from) * lay.itemSize
		base := unsafe.Add(lay.pointer, from*lay.itemSize)
		zero := true
		for k := uint32(0); k < n; k++ {
			zero = vAnd(zero, *(*byte)(unsafe.Add(base, k)) == 0)
		}
		vAssert(zero, "INV: storage beyond the table length is zero")
	}
}

// checkStats compares World.Stats() (first call: Stats, later calls: UpdateStats)
// with the tables: per node the active/total table counts, per table activity and size.
func (x *hW) checkStats() {
	w := &x.w
	st := w.Stats()
	vAssert(st.Entities.Used == x.aliveCount(), "Stats().Entities.Used = alive entities")
	nn := w.nodes.Len()
	vAssert(len(st.Nodes) == int(nn), "Stats().Nodes lists every node")
	size := 0
	for ni := int32(0); ni < nn; ni++ {
		nd := w.nodes.Get(ni)
		ns := &st.Nodes[ni]
		if !nd.IsActive {
			continue
		}
		arches := nd.Archetypes()
		na := arches.Len()
		active := 0
		vAssert(len(ns.Archetypes) == int(na), "Stats().Nodes[i].Archetypes lists every table")
		for ai := int32(0); ai < na; ai++ {
			a := arches.Get(ai)
			if a.IsActive() {
				active++
			}
			vAssert(ns.Archetypes[ai].IsActive == a.IsActive(), "Stats(): table activity")
			vAssert(ns.Archetypes[ai].Size == int(a.len), "Stats(): table size")
		}
		vAssert(ns.ArchetypeCount == int(na) && ns.ActiveArchetypeCount == active, "Stats().Nodes[i].ActiveArchetypeCount = tables currently in use")
		size += ns.Size
	}
	vAssert(size == x.aliveCount(), "Stats(): node sizes add up to the alive entities")
}

// checkUncheckedAPI: the *Unchecked access paths agree with the checked ones for alive entities.
func (x *hW) checkUncheckedAPI() {
	w := &x.w
	for i := 0; i < x.n; i++ {
		if !x.alive[i] {
			continue
		}
		e := x.h[i]
		for k := 0; k < x.nu; k++ {
			has := x.set[i]&(1<<k) != 0
			vAssert(w.HasUnchecked(e, x.id[k]) == has, "HasUnchecked agrees with the history")
			vAssert(w.GetUnchecked(e, x.id[k]) == w.Get(e, x.id[k]), "GetUnchecked returns the same pointer as Get")
		}
		if r := hRelOf(x.set[i]); r >= 0 {
			vAssert(w.Relations().GetUnchecked(e, x.id[r]) == x.tgt[i], "Relations.GetUnchecked is the last assigned target")
		}
	}
}
