package ecs

import "math"

// C02(a): one-step lemmas on the entity pool from an arbitrary well-formed state.

func init() {
	vRegister("HC02_PoolGet", HC02_PoolGet)
	vRegister("HC02_PoolRecycle", HC02_PoolRecycle)
	vRegister("HC02_PoolRecycleWrap", HC02_PoolRecycleWrap)
	vRegister("HC02_IntPool", HC02_IntPool)
	vRegister("HC02_World", HC02_World)
	vRegister("HC02_WorldRel", HC02_WorldRel)
}

const hPoolN = 6 // slots incl. the reserved slot 0

// hSymPool builds a pool with n slots, symbolic generations and a symbolic
// free list, constrained to be well-formed. onList reports the free slots.
func hSymPool(n int, maxGen uint32) (p entityPool, onList [hPoolN]bool) {
	ents := make([]Entity, n, n+int(vChoice("sparecap", 2)))
	ents[0] = Entity{0, math.MaxUint32}
	var gens [hPoolN]uint32
	for i := 1; i < n; i++ {
		gens[i] = vU32("gen")
		vAssume(gens[i] <= maxGen)
	}
	avail := vChoice("available", n) // 0..n-1 free slots
	// choose the chain: avail distinct non-zero slots
	var chain [hPoolN]int
	for k := 0; k < avail; k++ {
		c := 1 + vChoice("link", n-1)
		vAssume(!onList[c])
		onList[c] = true
		chain[k] = c
	}
	for i := 1; i < n; i++ {
		ents[i] = Entity{eid(i), gens[i]}
	}
	next := eid(0)
	if avail > 0 {
		next = eid(chain[0])
		for k := 0; k < avail; k++ {
			nx := eid(vU32("tail")) // the last link is arbitrary (real histories leave the old 'next' there)
			if k+1 < avail {
				nx = eid(chain[k+1])
			}
			ents[chain[k]].id = nx
		}
	} else {
		next = eid(vU32("next0"))
	}
	p = entityPool{entities: ents, next: next, available: uint32(avail), capacityIncrement: uint32(1 + vChoice("capinc", 3))}
	return p, onList
}

// hGhost: an arbitrary handle issued earlier for a slot of the pool.
func hGhost(p *entityPool, onList *[hPoolN]bool, n int, name string) Entity {
	id := 1 + vChoice(name+".id", n-1)
	g := Entity{eid(id), vU32(name + ".gen")}
	if onList[id] {
		vAssume(g.gen < p.entities[id].gen) // every handle of a free slot is older than the slot
	} else {
		vAssume(g.gen <= p.entities[id].gen)
	}
	return g
}

func hPoolWF(p *entityPool, n int) bool {
	// walk the free list; remaining slots are self-indexed
	var on [hPoolN + 1]bool
	cur := p.next
	for k := uint32(0); k < p.available; k++ {
		if cur == 0 || int(cur) >= n || on[cur] {
			return false
		}
		on[cur] = true
		cur = p.entities[cur].id
	}
	for i := 1; i < n; i++ {
		if !on[i] && p.entities[i].id != eid(i) {
			return false
		}
	}
	return len(p.entities) == n && p.entities[0].gen == math.MaxUint32
}

func HC02_PoolGet() {
	n := 2 + vChoice("n", hPoolN-1)
	p, onList := hSymPool(n, math.MaxUint32)
	g := hGhost(&p, &onList, n, "ghost")
	gAlive := p.Alive(g)
	lenBefore := p.Len()
	e := p.Get()
	nn := n
	if int(e.id) == n {
		nn = n + 1
	}
	vAssert(e.id != 0, "Get never returns the zero entity")
	vAssert(p.Alive(e), "a handle returned by Get is alive")
	vAssert(e != g, "a new handle differs from every handle issued before")
	vAssert(p.Alive(g) == gAlive, "Get does not change the liveness of any other handle")
	vAssert(p.Len() == lenBefore+1, "Get increases the alive count by one")
	vAssert(!p.Alive(Entity{}), "the zero entity is not alive")
	vAssert(hPoolWF(&p, nn), "Get preserves pool well-formedness")
	if int(e.id) < n {
		vAssert(onList[e.id], "a recycled id comes from the free list")
	}
	vReach("end")
}

func hRecycleLemma(maxGen uint32) {
	n := 2 + vChoice("n", hPoolN-1)
	p, onList := hSymPool(n, maxGen)
	g := hGhost(&p, &onList, n, "ghost")
	// e: an alive handle
	id := 1 + vChoice("e.id", n-1)
	vAssume(!onList[id])
	e := p.entities[id]
	gAlive := p.Alive(g)
	lenBefore := p.Len()
	p.Recycle(e)
	vAssert(!p.Alive(e), "a removed handle is not alive")
	if g != e {
		vAssert(p.Alive(g) == gAlive, "Recycle does not change the liveness of any other handle")
	}
	vAssert(p.Len() == lenBefore-1, "Recycle decreases the alive count by one")
	vAssert(hPoolWF(&p, n), "Recycle preserves pool well-formedness")
	// the id is handed out again with a handle different from every earlier one
	e2 := p.Get()
	vAssert(e2.id == e.id, "free list is LIFO")
	vAssert(e2 != e && e2 != g, "a re-issued id carries a handle never issued before")
	vAssert(!p.Alive(e), "a removed handle stays dead after its id is re-issued")
	vAssert(vImplies(!gAlive, !p.Alive(g)) || g == e2, "an older dead handle stays dead after the id is re-issued")
	vReach("end")
}

// HC02_PoolRecycle: generations below 2^32-1 (the bound of the claim).
func HC02_PoolRecycle() { hRecycleLemma(math.MaxUint32 - 1) }

// HC02_PoolRecycleWrap: no bound on the generation: exposes the wrap-around.
func HC02_PoolRecycleWrap() { hRecycleLemma(math.MaxUint32) }

// HC02_IntPool: the same lemmas for the filter-id pool.
func HC02_IntPool() {
	n := vChoice("n", 5)
	p := newIntPool[uint32](uint32(1 + vChoice("capinc", 2)))
	// reach an arbitrary state by a symbolic history of Get/Recycle (depth <= 6)
	var out [8]uint32
	var live [8]bool
	issued := 0
	steps := n + 2
	for s := 0; s < steps; s++ {
		if vChoice("op", 2) == 0 {
			v := p.Get()
			for j := 0; j < issued; j++ {
				if live[j] {
					vAssert(out[j] != v, "intPool never hands out an id that is still in use")
				}
			}
			vAssume(issued < 8)
			out[issued] = v
			live[issued] = true
			issued++
		} else {
			vAssume(issued > 0)
			j := vChoice("which", issued)
			vAssume(live[j])
			p.Recycle(out[j])
			live[j] = false
		}
	}
	vReach("end")
}

// HC02_World: handles at world level: single and batch creation mixing
// recycled and fresh ids, removal single / by filter / by Reset.
// handleSet: component sets used by the handle harnesses (with relation tables when the universe has them).
func (x *hW) handleSet(name string) uint8 {
	if x.nu <= uR1 {
		return x.pickLegalSet(name, 0)
	}
	return [4]uint8{0, 1 << uA, 1 << uR1, 1<<uA | 1<<uR1}[vChoice(name, 4)]
}

func (x *hW) handleStep(op int) {
	switch op {
	case 0:
		x.opNewEntity(x.handleSet("set"))
	case 1:
		cnt := int(vU8("count"))
		vAssume(cnt >= 1 && cnt <= 4)
		vAssume(x.n+cnt <= hMaxH)
		q := vChoice("q", 2) == 1
		x.opNewBatch(x.handleSet("set"), cnt, -1, false, Entity{}, q, q)
	case 2:
		x.opRemoveEntity(x.pickAliveIdx("ent"))
	case 3:
		f := vChoice("filter", 2) // All(), All(A)
		b := x.mkFilter(f, Entity{})
		x.opRemoveEntities(b.f, f, Entity{})
	case 4:
		x.opReset()
	case 5: // dump, reset and load the entity state back: same alive set, same future handles, no components
		d := x.w.DumpEntities()
		x.w.Reset()
		x.w.LoadEntities(&d)
		for j := 0; j < x.n; j++ {
			x.set[j], x.tgt[j] = 0, Entity{}
		}
	}
}

// HC02_WorldRel: the same handle properties on a world with relation tables
// (zero target, alive target, dead target) - Reset and filter removals must
// empty every kind of table.
func HC02_WorldRel() {
	_, capInc, relInc := hConfig()
	x := hNew(0, 6, capInc, relInc)
	x.opNewEntity(0)                                      // 0: parent
	x.opNewEntity(1 << uR1)                               // 1: relation without target
	x.opBuilderNew(1<<uR1, uR1, true, x.h[0], false)      // 2: child of 0
	x.opBuilderNew(1<<uA|1<<uR1, uR1, true, x.h[0], true) // 3: child of 0 in another node
	x.opNewEntity(1<<uA | 1<<uR1)                         // 4: relation without target, second node
	if vChoice("deadparent", 2) == 1 {
		x.opRemoveEntity(0)
	}
	steps := 2 // both tiers (thorough adds configurations): a third step exceeds the time budget
	for s := 0; s < steps; s++ {
		x.handleStep([5]int{0, 1, 2, 3, 4}[vChoice("op", 5)])
		x.inv()
	}
	x.check()
	x.checkQueries(true)
	st := x.w.Stats()
	vAssert(st.Entities.Used == x.aliveCount(), "Stats().Entities.Used = creations - removals")
	vReach("end")
}

func HC02_World() {
	_, capInc, relInc := hConfig()
	x := hNew(0, 1, capInc, relInc)
	switch vChoice("prefix", 3) {
	case 0:
	case 1:
		x.opNewEntity(1)
		x.opNewEntity(0)
		x.opNewEntity(1)
	default: // free list depth 3 with mixed generations
		x.opNewEntity(1)
		x.opNewEntity(1)
		x.opNewEntity(0)
		x.opNewEntity(1)
		x.opRemoveEntity(1)
		x.opNewEntity(1)
		x.opRemoveEntity(4)
		x.opRemoveEntity(3)
		x.opRemoveEntity(0)
	}
	steps := 2 + vTier()
	for s := 0; s < steps; s++ {
		x.handleStep(vChoice("op", 6))
		x.inv()
	}
	x.check()
	x.checkQueries(false)
	st := x.w.Stats()
	vAssert(st.Entities.Used == x.aliveCount(), "Stats().Entities.Used = creations - removals")
	vAssert(st.Entities.Total == st.Entities.Used+st.Entities.Recycled, "Stats: total ids = used + recycled")
	vReach("end")
}
