package ecs

// C14 (reduced scope): storage discipline for pointer-carrying components.
// Decided in the engine: pointer-carrying values only ever live in memory whose
// allocation type has a pointer slot there (what the collector scans), raw
// copies move whole items, vacated / retired / reset storage is zero. Natively
// (replay) finalizers and forced collections observe the referents.

func init() {
	vRegister("HC14_Pointers", HC14_Pointers)
}

const hMaxSlots = 12

type hPW struct {
	x     *hW
	slot  [hMaxH]int    // finalizer slot of the referent stored in entity i's P / S component (-1 none)
	val   [hMaxH]int64  // value stored in the referent
	nslot int
}

func (g *hPW) newRef(name string) (*int64, int, int64) {
	arr := new([4]int64) // 32 bytes: not served by the tiny allocator, so finalizers are reliable
	p := &arr[0]
	v := int64(vU64(name))
	*p = v
	s := g.nslot
	vBound(s < hMaxSlots, "referents<=12")
	g.nslot++
	vTrack(p, s)
	return p, s, v
}

// create an entity carrying P (and set) with a fresh referent supplied through NewEntityWith
func (g *hPW) create(set uint8, withTarget bool, t Entity) int {
	x := g.x
	p, s, v := g.newRef("ref")
	vals := hSymVals("pv")
	comps := x.comps(set&^(1<<uP), &vals)
	comps = append(comps, Component{ID: x.id[uP], Comp: hMkP(p)})
	var e Entity
	if withTarget {
		e = NewBuilderWith(&x.w, comps...).WithRelation(x.id[uR1]).New(t)
	} else {
		e = x.w.NewEntityWith(comps...)
	}
	i := x.mCreated(e, set|1<<uP, t)
	x.mSetVals(i, set&^(1<<uP), &vals)
	x.p[i] = p
	g.slot[i], g.val[i] = s, v
	return i
}

// createS: an entity carrying a string component whose bytes are a tracked heap object.
func (g *hPW) createS(set uint8) int {
	x := g.x
	s := g.nslot
	vBound(s < hMaxSlots, "referents<=12")
	g.nslot++
	str := vHeapString(s)
	var vals hVals
	comps := x.comps(set&^(1<<uS), &vals)
	comps = append(comps, Component{ID: x.id[uS], Comp: &hS{S: str}})
	e := x.w.NewEntityWith(comps...)
	i := x.mCreated(e, set|1<<uS, Entity{})
	x.s[i] = str
	g.slot[i], g.val[i] = s, 0
	return i
}

func (g *hPW) checkRefs() {
	x := g.x
	for i := 0; i < x.n; i++ {
		if x.alive[i] && x.set[i]&(1<<uS) != 0 {
			vAssert((*hS)(x.w.Get(x.h[i], x.id[uS])).S == x.s[i], "a string component keeps the string last written to it")
		}
		if x.alive[i] && x.set[i]&(1<<uP) != 0 && x.p[i] != nil {
			hp := (*hP)(x.w.Get(x.h[i], x.id[uP]))
			vAssert(hp.P[1] == x.p[i], "a pointer-carrying component keeps the pointer last written to it")
			vAssert(*hp.P[1] == g.val[i], "what a live component references is intact")
		}
	}
}

const hNPtrOps = 13

func (g *hPW) step(op int) {
	x := g.x
	P := uint8(1 << uP)
	switch op {
	case 0: // more entities in the same table: growth
		if vChoice("kind", 2) == 0 {
			g.create([3]uint8{0, 1 << uA, 1<<uA | 1<<uB}[vChoice("set", 3)], false, Entity{})
		} else {
			g.createS([2]uint8{0, 1 << uA}[vChoice("set", 2)])
		}
	case 1: // write through the Get pointer
		i := g.pickP("ent")
		vAssume(x.set[i]&P != 0)
		p, s, v := g.newRef("ref")
		(*hP)(x.w.Get(x.h[i], x.id[uP])).P[1] = p
		x.p[i], g.slot[i], g.val[i] = p, s, v
	case 2: // World.Set
		i := g.pickP("ent")
		vAssume(x.set[i]&P != 0)
		p, s, v := g.newRef("ref")
		x.w.Set(x.h[i], x.id[uP], hMkP(p))
		x.p[i], g.slot[i], g.val[i] = p, s, v
	case 3: // Assign P to an entity without it
		i := x.pickAliveIdx("ent")
		vAssume(x.set[i]&P == 0 && g.slot[i] < 0) // one tracked referent per entity (not an entity that carries the string component)
		p, s, v := g.newRef("ref")
		x.w.Assign(x.h[i], Component{ID: x.id[uP], Comp: hMkP(p)})
		x.mExchange(i, P, 0, false, Entity{})
		x.p[i], g.slot[i], g.val[i] = p, s, v
	case 4: // move the entity: add / remove another component
		i := g.pickP("ent")
		k := [2]int{uA, uB}[vChoice("comp", 2)]
		if x.set[i]&(1<<k) == 0 {
			x.opExchange(i, 1<<k, 0, 1)
		} else {
			x.opExchange(i, 0, 1<<k, 2)
		}
	case 5: // remove the component: the storage must let go of the referent
		i := g.pickP("ent")
		x.opExchange(i, 0, x.set[i]&(P|1<<uS), 2)
		x.p[i], x.s[i], g.slot[i] = nil, "", -1
	case 6: // remove an entity (swap-remove moves another row into its place)
		i := x.pickAliveIdx("ent")
		x.opRemoveEntity(i)
		x.p[i], x.s[i], g.slot[i] = nil, "", -1
	case 7: // batch move of every entity carrying P
		m := All(x.id[uP])
		k := [2]int{uC, uZ}[vChoice("comp", 2)]
		ok := true
		for j := 0; j < x.n; j++ {
			if x.alive[j] && x.set[j]&P != 0 && x.set[j]&(1<<k) != 0 {
				ok = false
			}
		}
		vAssume(ok)
		n := x.w.Batch().Add(&m, x.id[k])
		cnt := 0
		for j := 0; j < x.n; j++ {
			if x.alive[j] && x.set[j]&P != 0 {
				x.set[j] |= 1 << k
				cnt++
			}
		}
		vAssert(n == cnt, "batch call returns the number of matching entities")
	case 8: // relation move
		var idx [hMaxH]int
		n := 0
		for j := 0; j < x.n; j++ {
			if x.alive[j] && x.set[j]&P != 0 && hRelOf(x.set[j]) >= 0 {
				idx[n] = j
				n++
			}
		}
		i := idx[vChoice("ent", n)]
		x.opSetRelation(i, hRelOf(x.set[i]), x.pickOKTarget("tgt"))
	case 9: // Reset: everything must be released
		x.opReset()
		for j := 0; j < hMaxH; j++ {
			x.p[j], x.s[j], g.slot[j] = nil, "", -1
		}
	case 10: // batch removal of every entity carrying P and A
		b := x.mkFilter(fA, Entity{})
		x.opRemoveEntities(b.f, fA, Entity{})
		for j := 0; j < x.n; j++ {
			if !x.alive[j] {
				x.p[j], x.s[j], g.slot[j] = nil, "", -1
			}
		}
	case 12: // batch relation move: every component of the moved entities, incl. the relation's own data, must arrive
		b := x.mkFilter(fR1, Entity{})
		_, m := x.matching(fR1, Entity{})
		vAssume(m >= 1)
		x.opBatchSetRelation(b.f, fR1, Entity{}, uR1, x.pickOKTarget("newtgt"), vChoice("q", 2) == 1, false)
	case 11: // child with pointer component for a parent, then the parent dies
		g.create(1<<uR1, true, x.pickOKTarget("tgt"))
	}
}

func (g *hPW) pickP(name string) int {
	x := g.x
	var idx [hMaxH]int
	n := 0
	for j := 0; j < x.n; j++ {
		if x.alive[j] && x.set[j]&(1<<uP|1<<uS) != 0 {
			idx[n] = j
			n++
		}
	}
	return idx[vChoice(name, n)]
}

func hRunPointers(g *hPW) {
	x := g.x
	// prefix: a parent, pointer components in [P], [A,P] and a relation table
	x.opNewEntity(0)
	g.create(0, false, Entity{})
	g.create(0, false, Entity{})
	g.create(1<<uA, false, Entity{})
	g.create(1<<uA|1<<uR1, true, x.h[0])
	g.createS(0)
	g.createS(1 << uA)
	steps := 2
	for s := 0; s < steps; s++ {
		g.step(vChoice("op", hNPtrOps))
		g.checkRefs()
		x.inv()
	}
	x.check()
}

func HC14_Pointers() {
	vGCCheck()
	prof, capInc, relInc := hConfig2()
	g := &hPW{x: hNew(prof, 8, capInc, relInc)}
	for j := 0; j < hMaxH; j++ {
		g.slot[j] = -1
	}
	hRunPointers(g)
	// Native replay only: forced collections observe the referents. The harness
	// drops its own references first; what a live component references must
	// survive, everything else must be collected.
	if !vEngine() {
		x := g.x
		var live [hMaxSlots]bool
		for i := 0; i < x.n; i++ {
			if x.alive[i] && g.slot[i] >= 0 {
				live[g.slot[i]] = true
			}
		}
		for i := 0; i < hMaxH; i++ { // also slots beyond n: a Reset in the history restarts n but leaves them behind
			x.p[i], x.s[i] = nil, ""
		}
		for s := 0; s < g.nslot; s++ {
			c := vCollected(s)
			if live[s] {
				vAssert(!c, "what a live component references is not collected")
			} else {
				vAssert(c, "storage does not keep the referent of a removed component alive")
			}
		}
		g.checkRefsValuesOnly()
	}
	vReach("end")
}

func (g *hPW) checkRefsValuesOnly() {
	x := g.x
	for i := 0; i < x.n; i++ {
		if x.alive[i] && x.set[i]&(1<<uP) != 0 && g.slot[i] >= 0 {
			hp := (*hP)(x.w.Get(x.h[i], x.id[uP]))
			vAssert(hp.P[1] != nil && *hp.P[1] == g.val[i], "what a live component references is intact after garbage collection")
		}
		if x.alive[i] && x.set[i]&(1<<uS) != 0 && g.slot[i] >= 0 {
			vAssert((*hS)(x.w.Get(x.h[i], x.id[uS])).S == vHeapStringText(g.slot[i]), "a string held by a live component is intact after garbage collection")
		}
	}
}

func vHeapStringText(slot int) string {
	if slot < 10 {
		return "heap-string-" + string(rune('0'+slot))
	}
	return "heap-string-" + string(rune('0'+slot/10)) + string(rune('0'+slot%10))
}
