package ecs

import "github.com/mlange-42/arche/ecs/event"

// C12(a): the subscription rule, decided for all inputs.

func init() {
	vRegister("HC12_Subscribes", HC12_Subscribes)
	vRegister("HC12_SubscriptionBits", HC12_SubscriptionBits)
}

// VSubscribes exposes the core rule to the listener package's harness.
func VSubscribes(trigger event.Subscription, added, removed, subs *Mask, oldRel, newRel *ID) bool {
	return subscribes(trigger, added, removed, subs, oldRel, newRel)
}

func hAnyCommon(a, b *Mask) bool {
	any := false
	for j := 0; j < hMaskBits; j++ {
		any = vOr(any, vAnd(hBit(a, uint8(j)), hBit(b, uint8(j))))
	}
	return any
}

// HSubscribesSpec is the documented rule, written over sets.
func HSubscribesSpec(trigger uint8, added, removed, subs *Mask, oldRel, newRel *ID) bool {
	if subs == nil {
		return trigger != 0
	}
	rel := false
	if oldRel != nil {
		rel = vOr(rel, hBit(subs, oldRel.id))
	}
	if newRel != nil {
		rel = vOr(rel, hBit(subs, newRel.id))
	}
	add := false
	if added != nil {
		add = hAnyCommon(subs, added)
	}
	rem := false
	if removed != nil {
		rem = hAnyCommon(subs, removed)
	}
	const relBits = uint8(event.RelationChanged | event.TargetChanged)
	const addBits = uint8(event.EntityCreated | event.ComponentAdded)
	const remBits = uint8(event.EntityRemoved | event.ComponentRemoved)
	hit := vOr(vAnd(trigger&relBits != 0, rel), vOr(vAnd(trigger&addBits != 0, add), vAnd(trigger&remBits != 0, rem)))
	return vAnd(trigger != 0, hit)
}

func hOptMask(name string) *Mask {
	if vBool(name + ".nil") {
		return nil
	}
	m := vMask(name)
	return &m
}

func hOptID(name string) *ID {
	if vBool(name + ".nil") {
		return nil
	}
	id := ID{hID(name)}
	return &id
}

func HC12_Subscribes() {
	trigger := vU8("trigger")
	added, removed, subs := hOptMask("added"), hOptMask("removed"), hOptMask("subs")
	oldRel, newRel := hOptID("oldRel"), hOptID("newRel")
	got := subscribes(event.Subscription(trigger), added, removed, subs, oldRel, newRel)
	vAssert(got == HSubscribesSpec(trigger, added, removed, subs, oldRel, newRel), "subscribes() equals the documented rule")
	vReach("end")
}

func HC12_SubscriptionBits() {
	a, b, c, d, e, f := vBool("a"), vBool("b"), vBool("c"), vBool("d"), vBool("e"), vBool("f")
	bits := uint8(subscription(a, b, c, d, e, f))
	want := uint8(vB2U(a)) | uint8(vB2U(b))<<1 | uint8(vB2U(c))<<2 | uint8(vB2U(d))<<3 | uint8(vB2U(e))<<4 | uint8(vB2U(f))<<5
	vAssert(bits == want, "subscription() assembles the six type bits")
	s, t := vU8("s"), vU8("t")
	vAssert(event.Subscription(s).Contains(event.Subscription(t)) == (s&t == t), "Subscription.Contains is superset")
	vAssert(event.Subscription(s).ContainsAny(event.Subscription(t)) == (s&t != 0), "Subscription.ContainsAny is non-empty intersection")
	vReach("end")
}
