package ecs

import "github.com/mlange-42/arche/ecs/event"

// C12(a): the subscription rule, decided for all inputs.

func init() {
	vRegister("HC12_Subscribes", HC12_Subscribes)
	vRegister("HC12_SubscriptionBits", HC12_SubscriptionBits)
}

// VSubscribes exposes the core rule to the listener package's harness.
func VSubscribes(trigger event.Subscription, added, removed, subs *Mask, oldRel, newRel *ID) bool {
	return subscribes(trigger, added, removed, subs, oldRel, newRel)
}

func hAnyCommon(a, b *Mask) bool {
	any := false
	for j := 0; j < hMaskBits; j++ {
		any = vOr(any, vAnd(hBit(a, uint8(j)), hBit(b, uint8(j))))
	}
	return any
}

// HSubscribesSpec is the documented rule, written over sets.
func HSubscribesSpec(trigger uint8, added, removed, subs *Mask, oldRel, newRel *ID) bool {
	if subs == nil {
		return trigger != 0
	}
	rel := false
	if oldRel != nil {
		rel = vOr(rel, hBit(subs, oldRel.id))
	}
	if newRel != nil {
		rel = vOr(rel, hBit(subs, newRel.id))
	}
	add := false
	if added != nil {
		add = hAnyCommon(subs, added)
	}
	rem := false
	if removed != nil {
		rem = hAnyCommon(subs, removed)
	}
	const relBits = uint8(event.RelationChanged | event.TargetChanged)
	const addBits = uint8(event.EntityCreated | event.ComponentAdded)
	const remBits = uint8(event.EntityRemoved | event.ComponentRemoved)
	hit := vOr(vAnd(trigger&relBits != 0, rel), vOr(vAnd(trigger&addBits != 0, add), vAnd(trigger&remBits != 0, rem)))
	return vAnd(trigger != 0, hit)
}

func hOptMask(name string) *Mask {
	if vBool(name + ".nil") {
		return nil
	}
	m := vMask(name)
	return &m
}

func hOptID(name string) *ID {
	if vBool(name + ".nil") {
		return nil
	}
	id := ID{hID(name)}
	return &id
}

func HC12_Subscribes() {
	trigger := vU8("trigger")
	added, removed, subs := hOptMask("added"), hOptMask("removed"), hOptMask("subs")
	oldRel, newRel := hOptID("oldRel"), hOptID("newRel")
	got := subscribes(event.Subscription(trigger), added, removed, subs, oldRel, newRel)
	vAssert(got == HSubscribesSpec(trigger, added, removed, subs, oldRel, newRel), "subscribes() equals the documented rule")
	vReach("end")
}

func HC12_SubscriptionBits() {
	a, b, c, d, e, f := vBool("a"), vBool("b"), vBool("c"), vBool("d"), vBool("e"), vBool("f")
	bits := uint8(subscription(a, b, c, d, e, f))
	want := uint8(vB2U(a)) | uint8(vB2U(b))<<1 | uint8(vB2U(c))<<2 | uint8(vB2U(d))<<3 | uint8(vB2U(e))<<4 | uint8(vB2U(f))<<5
	vAssert(bits == want, "subscription() assembles the six type bits")
	s, t := vU8("s"), vU8("t")
	vAssert(event.Subscription(s).Contains(event.Subscription(t)) == (s&t == t), "Subscription.Contains is superset")
	vAssert(event.Subscription(s).ContainsAny(event.Subscription(t)) == (s&t != 0), "Subscription.ContainsAny is non-empty intersection")
	vReach("end")
}

func init() { vRegister("HC12_World", HC12_World) }

// HC12_World: a listener restricted to symbolic event types S and a symbolic
// component restriction C receives exactly the documented part of the stream:
// the model predicts the full event of every changed entity (C11 oracle), the
// documented rule decides whether it must be delivered.
func HC12_World() {
	prof, capInc, relInc := 0, 1, 1
	npre := 2
	if vTier() == 1 {
		if vChoice("config", 2) == 1 {
			prof, capInc, relInc = 1, 2, 2
		}
		npre = 5
	}
	x := hNew(prof, 6, capInc, relInc)
	x.prefix([5]int{3, 8, 1, 7, 11}[vChoice("prefix", npre)])
	rec := &hRec{x: x, restricted: true}
	rec.subs = event.Subscription(vU8("S") & 63)
	if vChoice("restriction", 2) == 1 {
		var c Mask
		for k := 0; k < x.nu; k++ {
			hSetBit(&c, x.id[k].id, vBool("C"))
		}
		rec.comp = &c
	}
	x.w.SetListener(rec)
	x.rec = nil // Q-variant timing is asserted in C11; here only the selection
	before := x.snap()
	wasReset := false
	switch vChoice("family", 3) {
	case 0:
		x.legalStep(vChoice("op", hNOps))
	case 1:
		x.batchStep(vChoice("op", hNBatchOps))
	default:
		op := vChoice("op", hNDeathOps)
		wasReset = op == 4
		x.deathStep(op)
	}
	x.checkEvents(rec, &before, wasReset)
	x.check()
	vReach("end")
}
