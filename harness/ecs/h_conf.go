package ecs

import "github.com/mlange-42/arche/ecs/event"

// Translator validation: concrete scenarios executed by the engine and natively;
// the logs of observables must be identical.

func init() {
	vRegister("HConf_Append", HConf_Append)
	vRegister("HConf_Batch", HConf_Batch)
	vRegister("HConf_Events", HConf_Events)
}

// HConf_Append: slice growth (runtime.growslice + size classes) for element
// types with and without pointers.
func HConf_Append() {
	var a []uint8
	var b []uint32
	var c []Entity
	var d []entityIndex
	var e []*archetype
	var f []layout
	var g []cacheEntry
	la, lb, lc, ld, le, lf, lg := 0, 0, 0, 0, 0, 0, 0
	for i := 0; i < 700; i++ {
		a = append(a, 1)
		b = append(b, 1)
		c = append(c, Entity{})
		d = append(d, entityIndex{})
		e = append(e, nil)
		f = append(f, layout{})
		if i < 80 {
			g = append(g, cacheEntry{})
		}
		if cap(a) != la {
			la = cap(a)
			vLog("u8", uint64(la))
		}
		if cap(b) != lb {
			lb = cap(b)
			vLog("u32", uint64(lb))
		}
		if cap(c) != lc {
			lc = cap(c)
			vLog("entity", uint64(lc))
		}
		if cap(d) != ld {
			ld = cap(d)
			vLog("entityIndex", uint64(ld))
		}
		if cap(e) != le {
			le = cap(e)
			vLog("ptr", uint64(le))
		}
		if cap(f) != lf {
			lf = cap(f)
			vLog("layout", uint64(lf))
		}
		if cap(g) != lg {
			lg = cap(g)
			vLog("cacheEntry", uint64(lg))
		}
	}
	// append of several elements at once
	var h []uint64
	for i := 0; i < 12; i++ {
		h = append(h, make([]uint64, i*7+1)...)
		vLog("multi", uint64(cap(h)))
	}
	vReach("end")
}

func logQuery(label string, q *Query, id ID) {
	vLog(label+".count", uint64(q.Count()))
	for q.Next() {
		e := q.Entity()
		vLog(label+".id", uint64(e.id))
		vLog(label+".gen", uint64(e.gen))
		if q.Has(id) {
			vLog(label+".a", uint64((*hA)(q.Get(id)).X))
		}
	}
}

func HConf_Batch() {
	w := NewWorld(NewConfig().WithCapacityIncrement(3).WithRelationCapacityIncrement(2))
	a, b, r := ComponentID[hA](&w), ComponentID[hB](&w), ComponentID[hR1](&w)
	p1, p2 := w.NewEntity(), w.NewEntity()
	NewBuilder(&w, a).NewBatch(5)
	q := NewBuilderWith(&w, Component{ID: a, Comp: &hA{X: 7}}, Component{ID: b, Comp: &hB{B: 3}}).NewBatchQ(4)
	logQuery("newq", &q, a)
	NewBuilder(&w, a, r).WithRelation(r).NewBatch(3, p1)
	NewBuilder(&w, a, r).WithRelation(r).NewBatch(2, p2)
	fa := All(a).Exclusive()
	vLog("add", uint64(w.Batch().Add(&fa, b)))
	fab := All(a, b)
	q = w.Batch().RemoveQ(&fab, b)
	logQuery("remq", &q, a)
	fr := All(r)
	rf := NewRelationFilter(&fr, p1)
	q = w.Batch().SetRelationQ(&rf, r, p2)
	logQuery("setrel", &q, a)
	cf := w.Cache().Register(&fr)
	q = w.Query(&cf)
	logQuery("cached", &q, a)
	w.RemoveEntity(p2)
	vLog("removed", uint64(w.Batch().RemoveEntities(&cf)))
	q = w.Query(&cf)
	logQuery("cached2", &q, a)
	m := All()
	q = w.Query(&m)
	logQuery("all", &q, a)
	st := w.Stats()
	vLog("used", uint64(st.Entities.Used))
	vLog("recycled", uint64(st.Entities.Recycled))
	vLog("nodes", uint64(len(st.Nodes)))
	vLog("active", uint64(st.ActiveNodeCount))
	d := w.DumpEntities()
	vLog("dump.next", uint64(d.Next))
	vLog("dump.avail", uint64(d.Available))
	for _, id := range d.Alive {
		vLog("dump.alive", uint64(id))
	}
	for _, e := range d.Entities {
		vLog("dump.e", uint64(e.id)<<32|uint64(e.gen))
	}
	vReach("end")
}

type hLogListener struct{}

func (l *hLogListener) Subscriptions() event.Subscription { return event.All }
func (l *hLogListener) Components() *Mask                 { return nil }
func (l *hLogListener) Notify(w *World, e EntityEvent) {
	vLog("ev.id", uint64(e.Entity.id))
	vLog("ev.types", uint64(e.EventTypes))
	vLog("ev.added", uint64(e.Added.TotalBitsSet()))
	vLog("ev.removed", uint64(e.Removed.TotalBitsSet()))
	vLog("ev.nadd", uint64(len(e.AddedIDs)))
	vLog("ev.nrem", uint64(len(e.RemovedIDs)))
	vLogB("ev.old", e.OldRelation != nil)
	vLogB("ev.new", e.NewRelation != nil)
	vLog("ev.oldtarget", uint64(e.OldTarget.id))
	vLogB("ev.locked", w.IsLocked())
}

func HConf_Events() {
	w := NewWorld(NewConfig().WithCapacityIncrement(2))
	a, b, r, r2 := ComponentID[hA](&w), ComponentID[hB](&w), ComponentID[hR1](&w), ComponentID[hR2](&w)
	w.SetListener(&hLogListener{})
	p := w.NewEntity()
	e1 := w.NewEntity(a)
	e2 := NewBuilder(&w, a, r).WithRelation(r).New(p)
	w.Add(e1, b)
	w.Exchange(e2, []ID{r2}, []ID{r})
	w.Relations().Set(e2, r2, p)
	w.Relations().Exchange(e1, []ID{r}, []ID{a}, r, p)
	w.Remove(e1, b)
	fr := All(r)
	w.Batch().SetRelation(&fr, r, Entity{})
	NewBuilder(&w, a, r).WithRelation(r).NewBatch(2, p)
	q := w.Batch().AddQ(&fr, b)
	q.Close()
	w.RemoveEntity(e2)
	w.Batch().RemoveEntities(&fr)
	w.RemoveEntity(p)
	w.Reset()
	w.NewEntity(a)
	vReach("end")
}
