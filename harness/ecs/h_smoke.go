package ecs

type hA struct{ X int64 }
type hB struct{ A, B, C int32 }
type hC struct{ V uint8 }
type hZ struct{}
type hR1 struct {
	Relation
	V int64
}
type hR2 struct{ Relation }

func init() {
	vRegister("HSmoke", HSmoke)
	vRegister("HSmokeSym", HSmokeSym)
}

func logEntity(label string, e Entity) {
	vLog(label+".id", uint64(e.id))
	vLog(label+".gen", uint64(e.gen))
}

// HSmoke is a concrete scenario used for engine-vs-native conformance.
func HSmoke() {
	w := NewWorld(NewConfig().WithCapacityIncrement(2))
	a := ComponentID[hA](&w)
	b := ComponentID[hB](&w)
	r := ComponentID[hR1](&w)
	vLog("a", uint64(a.id))
	vLog("b", uint64(b.id))
	vLog("r", uint64(r.id))
	e1 := w.NewEntity(a)
	e2 := w.NewEntity(a, b)
	e3 := w.NewEntity(a)
	e4 := w.NewEntity(a)
	logEntity("e1", e1)
	logEntity("e4", e4)
	(*hA)(w.Get(e1, a)).X = 11
	(*hA)(w.Get(e2, a)).X = 22
	(*hA)(w.Get(e3, a)).X = 33
	(*hA)(w.Get(e4, a)).X = 44
	(*hB)(w.Get(e2, b)).B = 7
	w.RemoveEntity(e1)
	vLogB("alive1", w.Alive(e1))
	vLog("x3", uint64((*hA)(w.Get(e3, a)).X))
	vLog("x4", uint64((*hA)(w.Get(e4, a)).X))
	w.Add(e3, b)
	vLog("x3b", uint64((*hA)(w.Get(e3, a)).X))
	vLog("b3", uint64((*hB)(w.Get(e3, b)).B))
	e5 := w.NewEntity(a)
	logEntity("e5", e5)
	p := w.NewEntity()
	c1 := NewBuilder(&w, a, r).WithRelation(r).New(p)
	c2 := NewBuilder(&w, a, r).WithRelation(r).New(p)
	_ = c2
	logEntity("rel", w.Relations().Get(c1, r))
	m := All(a)
	q := w.Query(&m)
	vLog("count", uint64(q.Count()))
	for q.Next() {
		logEntity("q", q.Entity())
		vLog("q.x", uint64((*hA)(q.Get(a)).X))
	}
	vLogB("locked", w.IsLocked())
	rf := NewRelationFilter(&m, p)
	q = w.Query(&rf)
	for q.Next() {
		logEntity("rq", q.Entity())
	}
	pan, msg := vCatch(func() { w.RemoveEntity(e1) })
	vLogB("pan", pan)
	vLogS("msg", msg)
	w.RemoveEntity(c1)
	w.RemoveEntity(c2)
	w.RemoveEntity(p)
	w.Reset()
	e6 := w.NewEntity(a)
	logEntity("e6", e6)
	vReach("end")
}

// HSmokeSym exercises symbolic payloads and a symbolic entity choice.
func HSmokeSym() {
	w := NewWorld(NewConfig().WithCapacityIncrement(2))
	a := ComponentID[hA](&w)
	b := ComponentID[hB](&w)
	var es [3]Entity
	var xs [3]int64
	for i := 0; i < 3; i++ {
		es[i] = w.NewEntity(a)
		xs[i] = int64(vU64("x"))
		(*hA)(w.Get(es[i], a)).X = xs[i]
	}
	k := vChoice("k", 3)
	w.Add(es[k], b)
	for i := 0; i < 3; i++ {
		vAssert((*hA)(w.Get(es[i], a)).X == xs[i], "payload preserved")
		vAssert(w.Has(es[i], b) == (i == k), "has b")
	}
	j := vChoice("j", 3)
	w.RemoveEntity(es[j])
	for i := 0; i < 3; i++ {
		if i != j {
			vAssert((*hA)(w.Get(es[i], a)).X == xs[i], "payload preserved after removal")
		}
	}
	vReach("end")
}
