package ecs

import "math/bits"

// One-step lemmas over the small containers the world is built from, each from an
// arbitrary (symbolic) state of the container: decided by the solver for every
// key / index / content, not by enumeration.

func init() {
	vRegister("HC06_BitSet", HC06_BitSet)
	vRegister("HC01_IDMap", HC01_IDMap)
}

// HC06_BitSet: the target-flag bit set behaves as an array of booleans:
// Set(i, v) changes exactly bit i; ExtendTo keeps every bit and makes room; Reset clears.
func HC06_BitSet() {
	const words = 3
	b := bitSet{data: make([]uint64, words)}
	for k := 0; k < words; k++ {
		b.data[k] = vU64("word")
	}
	i := eid(vU32("i"))
	j := eid(vU32("j"))
	vAssume(i < words*64 && j < words*64)
	val := vBool("val")
	before := b.Get(j)
	b.Set(i, val)
	vAssert(b.Get(i) == val, "bitSet.Set(i, v) makes Get(i) == v")
	vAssert(vImplies(i != j, b.Get(j) == before), "bitSet.Set(i, v) leaves every other bit unchanged")
	// growth keeps all bits, new bits are clear
	n := int(vU16("length"))
	vAssume(n <= 6*64)
	now := b.Get(j)
	b.ExtendTo(n)
	vAssert(len(b.data)*64 >= n && len(b.data) >= words, "bitSet.ExtendTo makes room for the requested bits and never shrinks")
	vAssert(b.Get(j) == now, "bitSet.ExtendTo keeps every bit")
	k := eid(vU32("k"))
	vAssume(k >= words*64 && int(k) < len(b.data)*64)
	vAssert(!b.Get(k), "bits added by bitSet.ExtendTo are clear")
	b.Reset()
	vAssert(!b.Get(j), "bitSet.Reset clears every bit")
	vReach("end")
}

// HC01_IDMap: the component-id map of the archetype graph behaves as a map:
// after Set(k, v) Get(k) is v, other keys are unaffected; Remove(k) removes exactly k.
func HC01_IDMap() {
	m := newIDMap[uint32]()
	k1, k2, k3 := vU8("k1"), vU8("k2"), vU8("k3")
	v1, v2 := vU32("v1"), vU32("v2")
	if MaskTotalBits < 256 {
		vAssume(int(k1) < MaskTotalBits && int(k2) < MaskTotalBits && int(k3) < MaskTotalBits)
	}
	vAssume(k1 != k2)
	_, ok := m.Get(k3)
	vAssert(!ok, "a new idMap is empty")
	m.Set(k1, v1)
	m.Set(k2, v2)
	g1, ok1 := m.Get(k1)
	g2, ok2 := m.Get(k2)
	vAssert(vAnd(ok1, g1 == v1), "idMap.Get returns the value set for the key")
	vAssert(vAnd(ok2, g2 == v2), "idMap.Get returns the value set for the second key")
	p, okp := m.GetPointer(k2)
	vAssert(okp && p != nil && *p == v2, "idMap.GetPointer addresses the value set for the key")
	g3, ok3 := m.Get(k3)
	vAssert(vImplies(vAnd(k3 != k1, k3 != k2), vAnd(!ok3, g3 == 0)), "idMap.Get of a key never set reports absence")
	m.Remove(k1)
	_, ok1 = m.Get(k1)
	g2, ok2 = m.Get(k2)
	vAssert(!ok1, "idMap.Remove removes the key")
	vAssert(vAnd(ok2, g2 == v2), "idMap.Remove leaves the other keys alone (also within the same chunk)")
	pn, okn := m.GetPointer(k1)
	vAssert(!okn && pn == nil, "idMap.GetPointer of a removed key is nil")
	m.Set(k1, v2)
	g1, ok1 = m.Get(k1)
	vAssert(vAnd(ok1, g1 == v2), "idMap.Set after Remove (chunk possibly re-allocated)")
	m.Remove(k2)
	m.Remove(k1)
	_, ok3 = m.Get(k3)
	vAssert(!ok3, "idMap is empty after removing every key")
	vReach("end")
}

func init() { vRegister("HConf_Bits", HConf_Bits) }

// HConf_Bits validates the engine's math/bits intrinsics against loop definitions
// (solver: intrinsic == definition for every input; native self-check: the real
// functions == the same definitions on random inputs).
func HConf_Bits() {
	x := vU64("x")
	n, lz, tz, pc := 0, 64, 64, 0
	for i := 0; i < 64; i++ {
		if x&(1<<uint(i)) != 0 {
			n = i + 1
		}
	}
	for i := 0; i < 8; i++ {
		if x&(1<<uint(i)) != 0 {
			pc++
		}
	}
	for i := 63; i >= 0; i-- {
		if x&(1<<uint(i)) != 0 {
			tz = i
		}
	}
	lz = 64 - n
	vAssert(bits.Len64(x) == n && bits.Len(uint(x)) == n, "bits.Len64")
	vAssert(bits.LeadingZeros64(x) == lz, "bits.LeadingZeros64")
	vAssert(bits.TrailingZeros64(x) == tz && bits.TrailingZeros(uint(x)) == tz, "bits.TrailingZeros64")
	vAssert(bits.OnesCount8(uint8(x)) == pc, "bits.OnesCount8 (OnesCount64 is cross-checked with the library's SWAR formula by the engine self-test)")
	y := uint32(x)
	n32, tz32 := 0, 32
	for i := 0; i < 32; i++ {
		if y&(1<<uint(i)) != 0 {
			n32 = i + 1
		}
	}
	for i := 31; i >= 0; i-- {
		if y&(1<<uint(i)) != 0 {
			tz32 = i
		}
	}
	vAssert(bits.Len32(y) == n32 && bits.LeadingZeros32(y) == 32-n32 && bits.TrailingZeros32(y) == tz32, "bits.*32")
	z := uint8(x)
	n8 := 0
	for i := 0; i < 8; i++ {
		if z&(1<<uint(i)) != 0 {
			n8 = i + 1
		}
	}
	vAssert(bits.Len8(z) == n8 && bits.LeadingZeros8(z) == 8-n8, "bits.*8")
	vReach("end")
}
