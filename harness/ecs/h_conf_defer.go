package ecs

func init() { vRegister("HConf_Defer", HConf_Defer) }

type hDeferT struct{ log []int }

func (t *hDeferT) work(n int, boom bool) (r int) {
	defer func() { t.log = append(t.log, n) }()
	defer t.note(n * 10)
	if boom {
		panic("boom")
	}
	return n + 1
}
func (t *hDeferT) note(k int) { t.log = append(t.log, k) }

func (t *hDeferT) safe(n int) int {
	defer func() {
		if r := recover(); r != nil {
			t.log = append(t.log, 999)
		}
	}()
	t.work(n, true)
	return 5
}

// HConf_Defer: defer / panic / recover semantics of the engine.
func HConf_Defer() {
	t := &hDeferT{}
	vLog("r", uint64(t.work(1, false)))
	pan, msg := vCatch(func() { t.work(2, true) })
	vLogB("pan", pan)
	vLogS("msg", msg)
	vLog("safe", uint64(t.safe(3)))
	for _, v := range t.log {
		vLog("log", uint64(v))
	}
	vReach("end")
}
