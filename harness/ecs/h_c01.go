package ecs

// C01: component data integrity across every structural change.

func init() {
	vRegister("HC01_Step", HC01_Step)
	vRegister("HC01_Two", HC01_Two)
	vRegister("HC01_TwoSmall", HC01_TwoSmall)
	vRegister("HC01_Probe", HC01_Probe)
	vRegister("HConf_Prefixes", HConf_Prefixes)
}

const hNPrefix = 10 // prefixes 0..9 are used by the generic harnesses; 10.. are special

// hStepPrefixes: the prefixes of the single-step harness (generic ones plus deep relation histories).
var hStepPrefixes = [12]int{0, 1, 2, 3, 4, 5, 6, 7, 8, 9, 13, 14}

// prefix drives the world into a distinctive shape through real operations.
func (x *hW) prefix(k int) {
	A, B, R1, R2 := uint8(1<<uA), uint8(1<<uB), uint8(1<<uR1), uint8(1<<uR2)
	switch k {
	case 0: // fresh
	case 1: // two populated tables, middle entity removed later by the suffix
		x.opNewEntityWith(A)
		x.opNewEntityWith(A)
		x.opNewEntityWith(A)
		x.opNewEntityWith(A | B)
		x.opNewEntityWith(A | B)
	case 2: // mixed sizes incl. zero-sized and 1-byte components
		x.opNewEntityWith(A | 1<<uC | 1<<uZ)
		x.opNewEntityWith(1<<uC | 1<<uZ)
		x.opNewEntityWith(1 << uZ)
		x.opNewEntityWith(B | 1<<uC)
		// sized components with a higher id than the zero-sized one
		x.opBuilderNew(1<<uZ|R1, uR1, false, Entity{}, true)
		x.opBuilderNew(1<<uZ|R1, uR1, false, Entity{}, true)
	case 3: // relation node with two parents
		x.opNewEntity(0)
		x.opNewEntity(0)
		x.opBuilderNew(R1, uR1, true, x.h[0], true)
		x.opBuilderNew(R1, uR1, true, x.h[0], true)
		x.opBuilderNew(A|R1, uR1, true, x.h[1], true)
		x.opBuilderNew(R1, uR1, false, Entity{}, true)
	case 4: // dead target with non-empty table
		x.opNewEntity(0)
		x.opBuilderNew(A|R1, uR1, true, x.h[0], true)
		x.opBuilderNew(A|R1, uR1, true, x.h[0], true)
		x.opRemoveEntity(0)
	case 5: // retired table on the free list, then a live parent
		x.opNewEntity(0)
		x.opBuilderNew(A|R1, uR1, true, x.h[0], true)
		x.opRemoveEntity(1)
		x.opRemoveEntity(0)
		x.opNewEntity(0)
		x.opBuilderNew(A|R1, uR1, false, Entity{}, true)
	case 6: // recycled ids, free list depth 3
		x.opNewEntityWith(A)
		x.opNewEntityWith(A | B)
		x.opNewEntityWith(A)
		x.opNewEntityWith(B)
		x.opRemoveEntity(1)
		x.opRemoveEntity(3)
		x.opRemoveEntity(0)
	case 8: // dead target with children whose id has been re-issued to a new entity
		x.opNewEntity(0)
		x.opBuilderNew(A|R1, uR1, true, x.h[0], true)
		x.opBuilderNew(R1, uR1, true, x.h[0], true)
		x.opRemoveEntity(0)
		x.opNewEntity(0) // recycles the dead target's id
		x.opNewEntityWith(A)
		x.opNewEntityWith(B | 1<<uC) // a plain table created after the relation tables
	case 9: // graph edges created by multi-component add and remove in one call
		x.opNewEntityWith(A | B | 1<<uC)
		x.opExchange(0, 0, A|B, 2)
		x.opNewEntityWith(1 << uC)
		x.opNewEntityWith(A)
		x.opExchange(3, B|1<<uC, 0, 1)
	case 10: // an entity that targets itself, plus a sibling
		x.opNewEntity(R1)
		x.opSetRelation(0, uR1, x.h[0])
		x.opNewEntityWith(A | R1)
	case 11: // alive parent whose child table is active but empty
		x.opNewEntity(0)
		x.opBuilderNew(A|R1, uR1, true, x.h[0], true)
		x.opNewEntityWith(A)
		x.opRemoveEntity(1)
	case 12: // reset while relation tables are populated, then a new parent
		x.opNewEntity(0)
		x.opBuilderNew(A|R1, uR1, true, x.h[0], true)
		x.opBuilderNew(A|R1, uR1, true, x.h[0], true)
		x.opBuilderNew(R1, uR1, true, x.h[0], true)
		x.opReset()
		x.opNewEntity(0)
		x.opNewEntity(0)
	case 13: // the only child of a dead target has left the relation node (its table there is retired)
		x.opNewEntity(0)
		x.opBuilderNew(R1, uR1, true, x.h[0], true)
		x.opNewEntityWith(A)
		x.opRemoveEntity(0)
		x.opExchange(1, A, 0, 1) // moves to node (A, R1) carrying the dead target
	case 14: // a relation table that grew, was retired and is re-used by one child of a new parent
		x.opNewEntity(0)
		x.opBuilderNew(A|R1, uR1, true, x.h[0], true)
		x.opBuilderNew(A|R1, uR1, true, x.h[0], true)
		x.opBuilderNew(A|R1, uR1, true, x.h[0], true)
		x.opRemoveEntity(1)
		x.opRemoveEntity(2)
		x.opRemoveEntity(3)
		x.opRemoveEntity(0) // table retired
		x.opNewEntity(0)    // new parent (recycled id)
		x.opBuilderNew(A|R1, uR1, true, x.h[4], true)
	case 15: // a removed handle whose id is re-issued to an entity that carries the same components
		x.opNewEntityWith(A)
		x.opNewEntityWith(A | B)
		x.opRemoveEntity(0)
		x.opNewEntityWith(A | B)
		x.opRemoveEntity(1)
		x.opNewEntityWith(A)
	case 7: // second relation type and relation swap material
		x.opNewEntity(0)
		x.opBuilderNew(R2, uR2, true, x.h[0], false)
		x.opBuilderNew(A|R2, uR2, true, x.h[0], true)
		x.opBuilderNew(A|R1, uR1, true, x.h[0], true)
	}
}

const hNOps = 11

// pickXchg chooses one legal (add, rem) pair for entity i among those
// satisfying the shape wanted (non-empty add / rem), optionally requiring a
// relation in the result.
func (x *hW) pickXchg(i int, wantAdd, wantRem int, needRel bool) (uint8, uint8) {
	var adds, rems [4096]uint8
	n := 0
	lim := 1 << x.nu
	for add := 0; add < lim; add++ {
		if (wantAdd == 0 && add != 0) || (wantAdd == 1 && add == 0) {
			continue
		}
		for rem := 0; rem < lim; rem++ {
			if (wantRem == 0 && rem != 0) || (wantRem == 1 && rem == 0) {
				continue
			}
			if add|rem == 0 || !x.exchangeLegal(i, uint8(add), uint8(rem)) {
				continue
			}
			if needRel && hRelOf((x.set[i]&^uint8(rem))|uint8(add)) < 0 {
				continue
			}
			adds[n], rems[n] = uint8(add), uint8(rem)
			n++
		}
	}
	k := vChoice("xchg", n)
	return adds[k], rems[k]
}

func (x *hW) pickAliveIdx(name string) int {
	var idx [hMaxH]int
	n := 0
	for j := 0; j < x.n; j++ {
		if x.alive[j] {
			idx[n] = j
			n++
		}
	}
	return idx[vChoice(name, n)]
}

// pickOKTarget: zero entity or an alive handle.
func (x *hW) pickOKTarget(name string) Entity {
	var ts [hMaxH + 1]Entity
	n := 1
	for j := 0; j < x.n; j++ {
		if x.alive[j] {
			ts[n] = x.h[j]
			n++
		}
	}
	return ts[vChoice(name, n)]
}

func (x *hW) pickLegalSet(name string, rels int) uint8 {
	var sets [128]uint8
	n := 0
	for s := 0; s < 1<<x.nu; s++ {
		c := hRelCount(uint8(s))
		if (rels < 0 && c <= 1) || c == rels {
			sets[n] = uint8(s)
			n++
		}
	}
	return sets[vChoice(name, n)]
}

// legalStep performs one operation of kind op with symbolic, legal arguments.
func (x *hW) legalStep(op int) {
	switch op {
	case 0:
		x.opNewEntity(x.pickLegalSet("set", -1))
	case 1:
		x.opNewEntityWith(x.pickLegalSet("set", -1))
	case 2:
		s := x.pickLegalSet("set", 1)
		x.opBuilderNew(s, hRelOf(s), true, x.pickOKTarget("tgt"), vChoice("withcomps", 2) == 1)
	case 3: // Add
		i := x.pickAliveIdx("ent")
		add, _ := x.pickXchg(i, 1, 0, false)
		x.opExchange(i, add, 0, 1)
	case 4: // Remove
		i := x.pickAliveIdx("ent")
		_, rem := x.pickXchg(i, 0, 1, false)
		x.opExchange(i, 0, rem, 2)
	case 5: // Exchange
		i := x.pickAliveIdx("ent")
		add, rem := x.pickXchg(i, 1, 1, false)
		x.opExchange(i, add, rem, 0)
	case 6: // Assign
		i := x.pickAliveIdx("ent")
		add, _ := x.pickXchg(i, 1, 0, false)
		x.opAssign(i, add)
	case 7: // Set / write through Get
		i := x.pickAliveIdx("ent")
		var ks [hNU]int
		n := 0
		for k := 0; k < x.nu; k++ {
			if x.set[i]&(1<<k) != 0 {
				ks[n] = k
				n++
			}
		}
		x.opSet(i, ks[vChoice("comp", n)], vChoice("api", 2))
	case 8:
		x.opRemoveEntity(x.pickAliveIdx("ent"))
	case 9: // Relations.Set
		var idx [hMaxH]int
		n := 0
		for j := 0; j < x.n; j++ {
			if x.alive[j] && hRelOf(x.set[j]) >= 0 {
				idx[n] = j
				n++
			}
		}
		i := idx[vChoice("ent", n)]
		x.opSetRelation(i, hRelOf(x.set[i]), x.pickOKTarget("tgt"))
	case 10: // Relations.Exchange / Builder.Add with target
		i := x.pickAliveIdx("ent")
		api := vChoice("api", 3) // Relations.Exchange / Builder.Add from ids / Builder.Add from component values
		wantRem := -1
		if api >= 1 {
			wantRem = 0
		}
		add, rem := x.pickXchg(i, -1, wantRem, true)
		r := hRelOf((x.set[i] &^ rem) | add)
		if api == 2 {
			x.opBuilderAddWith(i, add, r, x.pickOKTarget("tgt"))
		} else {
			x.opRelExchange(i, add, rem, r, x.pickOKTarget("tgt"), api)
		}
	}
}

// hConfig picks (ID profile, capacity increment, relation capacity increment).
// quick: three representative combinations; thorough: the full product.
func hConfig() (int, int, int) {
	nprof := 4
	if MaskTotalBits == 64 {
		nprof = 2 // profiles with ids < 64 only
	}
	if vTier() == 0 {
		switch vChoice("config", 3) {
		case 0:
			return 0, 1, 1
		case 1:
			return 1, 2, 1
		default:
			return nprof - 1, 3, 2
		}
	}
	// thorough: six combinations covering every profile and every capacity increment
	c := [6][3]int{{0, 1, 1}, {1, 2, 1}, {2, 3, 2}, {3, 1, 2}, {0, 2, 2}, {1, 3, 1}}[vChoice("config", 6)]
	return c[0] % nprof, c[1], c[2]
}

func HC01_Step() {
	prof, capInc, relInc := hConfig()
	x := hNew(prof, 6, capInc, relInc)
	x.prefix(hStepPrefixes[vChoice("prefix", len(hStepPrefixes))])
	x.check()
	x.legalStep(vChoice("op", hNOps))
	x.check()
	x.inv()
	x.checkQueries(true)
	x.checkUncheckedAPI()
	vReach("end")
}

// HC01_Two: two symbolic operations in a row (thorough tier).
func HC01_Two() {
	x := hNew(1, 6, 1+vChoice("capinc", 2), 1)
	x.prefix([3]int{1, 3, 8}[vChoice("prefix", 3)])
	x.legalStep(vChoice("op1", hNOps))
	x.inv()
	x.legalStepSmall([5]int{0, 1, 2, 8, 9}[vChoice("op2", 5)]) // second step: reduced argument range
	x.check()
	x.inv()
	x.checkQueries(false)
	vReach("end")
}

// HC01_TwoSmall: two operations in a row with a reduced argument range, every prefix (quick tier).
func HC01_TwoSmall() {
	x := hNew(0, 6, 1+vChoice("capinc", 1+vTier()), 1)
	x.prefix(vChoice("prefix", hNPrefix))
	ops := [6]int{0, 1, 2, 8, 9, 4}
	x.legalStepSmall(ops[vChoice("op1", 6)])
	x.inv()
	x.legalStepSmall(ops[vChoice("op2", 6)])
	x.check()
	x.inv()
	x.checkQueries(true)
	vReach("end")
}

// HConf_Prefixes: concrete run through every prefix logging observables, for
// engine-vs-native conformance.
func HConf_Prefixes() {
	for k := 0; k < hNPrefix; k++ {
		x := hNew(k%2, 6, 1+k%3, 1+k%2)
		x.prefix(k)
		for i := 0; i < x.n; i++ {
			vLog("id", uint64(x.h[i].id))
			vLog("gen", uint64(x.h[i].gen))
			vLogB("alive", x.w.Alive(x.h[i]))
			if x.alive[i] {
				m := x.w.Mask(x.h[i])
				vLog("bits", uint64(m.TotalBitsSet()))
				if x.set[i]&(1<<uA) != 0 {
					vLog("a", uint64((*hA)(x.w.Get(x.h[i], x.id[uA])).X))
				}
				if r := hRelOf(x.set[i]); r >= 0 {
					vLog("tgt", uint64(x.w.Relations().Get(x.h[i], x.id[r]).id))
				}
			}
		}
		m := All()
		q := x.w.Query(&m)
		vLog("count", uint64(q.Count()))
		for q.Next() {
			vLog("q", uint64(q.Entity().id))
		}
		vLog("nodes", uint64(x.w.nodes.Len()))
		vLog("cap", uint64(cap(x.w.entities)))
		vLog("poolcap", uint64(cap(x.w.entityPool.entities)))
		vLog("relnodes", uint64(cap(x.w.relationNodes)))
	}
	vReach("end")
}

func HC01_Probe() {
	x := hNew(0, 6, 1, 1)
	x.prefix(1)
	x.check()
	x.legalStep(vChoice("op", hNOps))
	x.check()
	x.inv()
	x.checkQueries(true)
	vReach("end")
}
