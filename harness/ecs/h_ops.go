package ecs

// Operations of the public API, driven with symbolic arguments; each computes
// the documented legality from the model, performs the call under vCatch,
// asserts "panics iff illegal" and updates the model.

const hLockMsg = "attempt to modify a locked world"

// pick helpers -------------------------------------------------------------

func (x *hW) pickHandle(name string) int { return vChoice(name, x.n) }

func (x *hW) pickAlive(name string) int {
	i := vChoice(name, x.n)
	vAssume(x.alive[i])
	return i
}

func (x *hW) pickSet(name string) uint8 { return uint8(vChoice(name, 1<<x.nu)) }

// pickTarget: 0 = zero entity, 1..n = issued handle (alive or dead), n+1 = stale
// handle (previous generation of a recycled id), returns the entity.
func (x *hW) pickTarget(name string) Entity {
	k := vChoice(name, x.n+1)
	if k == 0 {
		return Entity{}
	}
	return x.h[k-1]
}

// legal exchange per the documentation.
func (x *hW) exchangeLegal(i int, add, rem uint8) bool {
	if !x.alive[i] {
		return false
	}
	s := x.set[i]
	if rem&^s != 0 || add&s != 0 {
		return false
	}
	return hRelCount((s&^rem)|add) <= 1
}

func (x *hW) expectPanic(pan bool, msg string, illegal bool, what string) {
	x.lastPan, x.lastMsg = pan, msg
	vAssert(pan == illegal, what)
}

// mExchange applies the documented effect of an exchange to the model.
func (x *hW) mExchange(i int, add, rem uint8, hasTarget bool, t Entity) {
	s := x.set[i]
	ns := (s &^ rem) | add
	if hasTarget {
		x.tgt[i] = t
	} else if rem&(1<<uR1|1<<uR2) != 0 {
		x.tgt[i] = Entity{}
	}
	if hRelOf(ns) < 0 {
		x.tgt[i] = Entity{}
	}
	x.set[i] = ns
	x.mZero(i, add)
}

// ---- single-entity operations ----

func (x *hW) opNewEntity(set uint8) {
	legal := hRelCount(set) <= 1 && x.locks == 0
	var e Entity
	ids := x.ids(set)
	pan, msg := vCatch(func() { e = x.w.NewEntity(ids...) })
	x.expectPanic(pan, msg, !legal, "NewEntity panics exactly when illegal")
	if !pan {
		x.mCreated(e, set, Entity{})
	}
}

func (x *hW) opNewEntityWith(set uint8) {
	legal := hRelCount(set) <= 1 && x.locks == 0
	v := hSymVals("new")
	comps := x.comps(set, &v)
	var e Entity
	pan, msg := vCatch(func() { e = x.w.NewEntityWith(comps...) })
	x.expectPanic(pan, msg, !legal, "NewEntityWith panics exactly when illegal")
	if !pan {
		i := x.mCreated(e, set, Entity{})
		x.mSetVals(i, set, &v)
	}
}

// opBuilderNew: Builder with relation r (universe index, -1: none) and optional target.
func (x *hW) opBuilderNew(set uint8, r int, withTarget bool, t Entity, withComps bool) {
	v := hSymVals("bnew")
	var b *Builder
	if withComps {
		b = NewBuilderWith(&x.w, x.comps(set, &v)...)
	} else {
		b = NewBuilder(&x.w, x.ids(set)...)
	}
	if r >= 0 {
		b = b.WithRelation(x.id[r])
	}
	legal := hRelCount(set) <= 1 && x.locks == 0
	if withTarget {
		legal = legal && r >= 0 && set&(1<<r) != 0 && hIsRel(r) && x.tgtOK(t)
	}
	var e Entity
	pan, msg := vCatch(func() {
		if withTarget {
			e = b.New(t)
		} else {
			e = b.New()
		}
	})
	x.expectPanic(pan, msg, !legal, "Builder.New panics exactly when illegal")
	if !pan {
		tt := Entity{}
		if withTarget {
			tt = t
		}
		i := x.mCreated(e, set, tt)
		if withComps {
			x.mSetVals(i, set, &v)
		}
	}
}

func (x *hW) opExchange(i int, add, rem uint8, api int) {
	legal := x.exchangeLegal(i, add, rem) && x.locks == 0
	e := x.h[i]
	a, r := x.ids(add), x.ids(rem)
	pan, msg := vCatch(func() {
		switch api {
		case 0:
			x.w.Exchange(e, a, r)
		case 1:
			x.w.Add(e, a...)
		default:
			x.w.Remove(e, r...)
		}
	})
	x.expectPanic(pan, msg, !legal, "Exchange/Add/Remove panics exactly when illegal")
	if !pan && add|rem != 0 {
		x.mExchange(i, add, rem, false, Entity{})
	}
}

func (x *hW) opAssign(i int, add uint8) {
	legal := x.exchangeLegal(i, add, 0) && add != 0 && x.locks == 0
	v := hSymVals("asg")
	comps := x.comps(add, &v)
	e := x.h[i]
	pan, msg := vCatch(func() { x.w.Assign(e, comps...) })
	x.expectPanic(pan, msg, !legal, "Assign panics exactly when illegal")
	if !pan {
		x.mExchange(i, add, 0, false, Entity{})
		x.mSetVals(i, add, &v)
	}
}

// opSet overwrites component k of entity i through Set (api 0) or a Get pointer (api 1).
func (x *hW) opSet(i int, k int, api int) {
	legal := x.alive[i] && x.set[i]&(1<<k) != 0
	v := hSymVals("set")
	e := x.h[i]
	pan, msg := vCatch(func() {
		if api == 0 {
			switch k {
			case uA:
				x.w.Set(e, x.id[k], &hA{X: v.a})
			case uB:
				x.w.Set(e, x.id[k], &hB{A: v.b[0], B: v.b[1], C: v.b[2]})
			case uC:
				x.w.Set(e, x.id[k], &hC{V: v.c})
			case uR1:
				x.w.Set(e, x.id[k], &hR1{V: v.r1})
			default:
				x.w.Set(e, x.id[k], &hZ{})
			}
		} else {
			p := x.w.Get(e, x.id[k])
			switch k {
			case uA:
				(*hA)(p).X = v.a
			case uB:
				*(*hB)(p) = hB{A: v.b[0], B: v.b[1], C: v.b[2]}
			case uC:
				(*hC)(p).V = v.c
			case uR1:
				(*hR1)(p).V = v.r1
			}
		}
	})
	x.expectPanic(pan, msg, !legal, "Set / write through Get panics exactly when illegal")
	if !pan {
		x.mSetVals(i, 1<<k, &v)
	}
}

func (x *hW) opRemoveEntity(i int) {
	legal := x.alive[i] && x.locks == 0
	e := x.h[i]
	pan, msg := vCatch(func() { x.w.RemoveEntity(e) })
	x.expectPanic(pan, msg, !legal, "RemoveEntity panics exactly when illegal")
	if !pan {
		x.alive[i] = false
		x.pRecycle(e)
	}
}

func (x *hW) opSetRelation(i int, r int, t Entity) {
	legal := x.alive[i] && x.set[i]&(1<<r) != 0 && hIsRel(r) && x.tgtOK(t) && x.locks == 0
	e := x.h[i]
	pan, msg := vCatch(func() { x.w.Relations().Set(e, x.id[r], t) })
	x.expectPanic(pan, msg, !legal, "Relations.Set panics exactly when illegal")
	if !pan {
		x.tgt[i] = t
	}
}

// opRelExchange: Relations.Exchange (api 0) / Builder.Add with target (api 1).
func (x *hW) opRelExchange(i int, add, rem uint8, r int, t Entity, api int) {
	ns := (x.set[i] &^ rem) | add
	legal := x.exchangeLegal(i, add, rem) && add|rem != 0 && ns&(1<<r) != 0 && hIsRel(r) && x.tgtOK(t) && x.locks == 0
	e := x.h[i]
	a, rm := x.ids(add), x.ids(rem)
	pan, msg := vCatch(func() {
		if api == 0 {
			x.w.Relations().Exchange(e, a, rm, x.id[r], t)
		} else {
			NewBuilder(&x.w, a...).WithRelation(x.id[r]).Add(e, t)
		}
	})
	x.expectPanic(pan, msg, !legal, "Relations.Exchange / Builder.Add with target panics exactly when illegal")
	if !pan {
		x.mExchange(i, add, rem, true, t)
	}
}

func (x *hW) opReset() {
	legal := x.locks == 0
	pan, msg := vCatch(func() { x.w.Reset() })
	x.expectPanic(pan, msg, !legal, "Reset panics exactly when locked")
	if !pan {
		x.n = 0
		x.pReset()
	}
}

// ---- batch operations ----

// adoptNew scans the world for entities the model does not know yet and
// records them as created with (set, tgt); returns how many were found.
func (x *hW) adoptNew(set uint8, tgt Entity, v *hVals, withVals bool) int {
	m := All()
	q := x.w.Query(&m)
	var fresh [hMaxH]Entity
	nf := 0
	for q.Next() {
		e := q.Entity()
		known := false
		for j := 0; j < x.n; j++ {
			if x.h[j] == e && x.alive[j] {
				known = true
			}
		}
		if !known {
			vBound(nf < hMaxH, "handles<=10")
			fresh[nf] = e
			nf++
		}
	}
	for k := 0; k < nf; k++ {
		i := x.mCreated(fresh[k], set, tgt)
		if withVals {
			x.mSetVals(i, set, v)
		}
	}
	return nf
}

// opNewBatch: Builder.NewBatch / NewBatchQ.
func (x *hW) opNewBatch(set uint8, count int, r int, withTarget bool, t Entity, withComps bool, useQ bool) {
	v := hSymVals("batch")
	var b *Builder
	if withComps {
		b = NewBuilderWith(&x.w, x.comps(set, &v)...)
	} else {
		b = NewBuilder(&x.w, x.ids(set)...)
	}
	if r >= 0 {
		b = b.WithRelation(x.id[r])
	}
	legal := count >= 1 && hRelCount(set) <= 1 && x.locks == 0
	if withTarget {
		legal = legal && r >= 0 && set&(1<<r) != 0 && hIsRel(r) && x.tgtOK(t)
	}
	tt := Entity{}
	if withTarget {
		tt = t
	}
	if !useQ {
		pan, msg := vCatch(func() {
			if withTarget {
				b.NewBatch(count, t)
			} else {
				b.NewBatch(count)
			}
		})
		x.expectPanic(pan, msg, !legal, "NewBatch panics exactly when illegal")
		if !pan {
			got := x.adoptNew(set, tt, &v, withComps)
			vAssert(got == count, "NewBatch creates exactly count entities")
		}
		return
	}
	var q Query
	pan, msg := vCatch(func() {
		if withTarget {
			q = b.NewBatchQ(count, t)
		} else {
			q = b.NewBatchQ(count)
		}
	})
	x.expectPanic(pan, msg, !legal, "NewBatchQ panics exactly when illegal")
	if pan {
		return
	}
	vAssert(x.w.IsLocked(), "batch query holds the world lock")
	if x.rec != nil {
		vAssert(x.rec.n == 0, "Q variants emit their events only when the query is closed or exhausted")
	}
	vAssert(q.Count() == count, "batch query counts the created entities")
	got := 0
	for q.Next() {
		e := q.Entity()
		i := x.mCreated(e, set, tt)
		if withComps {
			x.mSetVals(i, set, &v)
		}
		if set&(1<<uA) != 0 {
			vAssert((*hA)(q.Get(x.id[uA])).X == x.a[i], "batch query gives access to the new component")
		}
		got++
	}
	vAssert(got == count, "batch query iterates exactly the created entities")
	vAssert(!x.w.IsLocked() || x.locks > 0, "exhausted batch query releases the lock")
}

// matching returns the model indices matching filter kind f / target t.
func (x *hW) matching(f int, t Entity) ([hMaxH]int, int) {
	var idx [hMaxH]int
	n := 0
	for j := 0; j < x.n; j++ {
		if x.modelMatch(j, f, t) {
			idx[n] = j
			n++
		}
	}
	return idx, n
}

func (x *hW) opRemoveEntities(flt Filter, f int, t Entity) {
	_, n := x.matching(f, t)
	legal := x.locks == 0
	cnt := 0
	pan, msg := vCatch(func() { cnt = x.w.Batch().RemoveEntities(flt) })
	x.expectPanic(pan, msg, !legal, "RemoveEntities panics exactly when locked")
	if pan {
		return
	}
	vAssert(cnt == n, "RemoveEntities returns the number of matching entities")
	nrem := 0
	last := -1
	for j := 0; j < x.n; j++ {
		if x.modelMatch(j, f, t) {
			x.alive[j] = false
			nrem++
			last = j
		}
	}
	if nrem == 1 {
		x.pRecycle(x.h[last])
	} else if nrem > 1 {
		x.pKnown = false // recycling order inside a batch removal is not modelled
	}
}

// batchLegal: the exchange (add, rem) is legal for every entity matching (f, t).
func (x *hW) batchLegal(f int, t Entity, add, rem uint8) (bool, int) {
	n := 0
	for j := 0; j < x.n; j++ {
		if x.modelMatch(j, f, t) {
			n++
			if !x.exchangeLegal(j, add, rem) {
				return false, n
			}
		}
	}
	return true, n
}

// opBatchExchange: Batch.Add / Remove / Exchange (+Q) through filter flt (kind f, target t).
// api: 0 Exchange, 1 Add, 2 Remove. rel >= 0: Relations.ExchangeBatch with target nt.
func (x *hW) opBatchExchange(flt Filter, f int, t Entity, add, rem uint8, api int, useQ bool, rel int, nt Entity) {
	legalAll, n := x.batchLegal(f, t, add, rem)
	vAssume(legalAll) // precondition of the batch call: legal for every matching entity
	legal := x.locks == 0
	if rel >= 0 {
		// relation given: must have an effect, relation must be in the result and target ok
		legal = legal && add|rem != 0 && x.tgtOK(nt)
	}
	a, r := x.ids(add), x.ids(rem)
	cnt := 0
	var q Query
	pan, msg := vCatch(func() {
		switch {
		case rel >= 0 && useQ:
			q = x.w.Relations().ExchangeBatchQ(flt, a, r, x.id[rel], nt)
		case rel >= 0:
			cnt = x.w.Relations().ExchangeBatch(flt, a, r, x.id[rel], nt)
		case useQ && api == 0:
			q = x.w.Batch().ExchangeQ(flt, a, r)
		case useQ && api == 1:
			q = x.w.Batch().AddQ(flt, a...)
		case useQ:
			q = x.w.Batch().RemoveQ(flt, r...)
		case api == 0:
			cnt = x.w.Batch().Exchange(flt, a, r)
		case api == 1:
			cnt = x.w.Batch().Add(flt, a...)
		default:
			cnt = x.w.Batch().Remove(flt, r...)
		}
	})
	x.expectPanic(pan, msg, !legal, "batch exchange panics exactly when illegal")
	if pan {
		return
	}
	// model: the single-entity effect on every entity that matched at call time
	var affected [hMaxH]bool
	if add|rem != 0 {
		for j := 0; j < x.n; j++ {
			if x.modelMatch(j, f, t) {
				affected[j] = true
			}
		}
		for j := 0; j < x.n; j++ {
			if affected[j] {
				x.mExchange(j, add, rem, rel >= 0, nt)
			}
		}
	} else {
		n = 0
	}
	if !useQ {
		vAssert(cnt == n, "batch call returns the number of matching entities")
		return
	}
	if x.rec != nil {
		vAssert(x.rec.n == 0, "Q variants emit their events only when the query is closed or exhausted")
	}
	vAssert(q.Count() == n, "batch query counts the affected entities")
	got := 0
	for q.Next() {
		e := q.Entity()
		idx := -1
		for j := 0; j < x.n; j++ {
			if x.h[j] == e && x.alive[j] {
				idx = j
			}
		}
		vAssert(idx >= 0 && affected[idx], "batch query visits only affected entities")
		if idx >= 0 {
			affected[idx] = false
			for k := 0; k < x.nu; k++ {
				vAssert(q.Has(x.id[k]) == (x.set[idx]&(1<<k) != 0), "batch query shows the new component set")
			}
			if x.set[idx]&(1<<uA) != 0 {
				vAssert((*hA)(q.Get(x.id[uA])).X == x.a[idx], "batch query gives access to component values")
			}
		}
		got++
	}
	vAssert(got == n, "batch query visits every affected entity exactly once")
}

// opBatchSetRelation: Batch.SetRelation / Relations.SetBatch (+Q).
func (x *hW) opBatchSetRelation(flt Filter, f int, t Entity, rel int, nt Entity, useQ bool, viaRelations bool) {
	// precondition: every matching entity carries relation rel
	n := 0
	for j := 0; j < x.n; j++ {
		if x.modelMatch(j, f, t) {
			n++
			vAssume(x.set[j]&(1<<rel) != 0)
		}
	}
	legal := x.locks == 0 && x.tgtOK(nt)
	cnt := 0
	var q Query
	pan, msg := vCatch(func() {
		switch {
		case useQ && viaRelations:
			q = x.w.Relations().SetBatchQ(flt, x.id[rel], nt)
		case useQ:
			q = x.w.Batch().SetRelationQ(flt, x.id[rel], nt)
		case viaRelations:
			cnt = x.w.Relations().SetBatch(flt, x.id[rel], nt)
		default:
			cnt = x.w.Batch().SetRelation(flt, x.id[rel], nt)
		}
	})
	x.expectPanic(pan, msg, !legal, "batch SetRelation panics exactly when illegal")
	if pan {
		return
	}
	var changed [hMaxH]bool
	nch := 0
	for j := 0; j < x.n; j++ {
		if x.modelMatch(j, f, t) {
			if x.tgt[j] != nt {
				changed[j] = true
				nch++
			}
		}
	}
	for j := 0; j < x.n; j++ {
		if changed[j] {
			x.tgt[j] = nt
		}
	}
	if !useQ {
		vAssert(cnt == n, "batch SetRelation returns the number of matching entities")
		return
	}
	if x.rec != nil {
		vAssert(x.rec.n == 0, "Q variants emit their events only when the query is closed or exhausted")
	}
	vAssert(q.Count() == nch, "SetRelationQ counts the entities whose target changed")
	got := 0
	for q.Next() {
		e := q.Entity()
		idx := -1
		for j := 0; j < x.n; j++ {
			if x.h[j] == e && x.alive[j] {
				idx = j
			}
		}
		vAssert(idx >= 0 && changed[idx], "SetRelationQ visits only entities whose target changed")
		if idx >= 0 {
			changed[idx] = false
			vAssert(q.Relation(x.id[rel]) == nt, "SetRelationQ shows the new target")
		}
		got++
	}
	vAssert(got == nch, "SetRelationQ visits every changed entity exactly once")
}
