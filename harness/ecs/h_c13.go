package ecs

import "github.com/mlange-42/arche/ecs/event"

// C13: determinism. Self-composition: the same operations are applied to two
// freshly created worlds in one path; handles, query iteration order, events
// and dumps must be identical. Map iteration order is a solver-chosen
// permutation in the engine (independently in both worlds), so any dependence
// on it yields a witness order.

func init() {
	vRegister("HC13_Determinism", HC13_Determinism)
}

type hSeqRec struct {
	ev [40]struct {
		e     Entity
		types event.Subscription
		add   Mask
		rem   Mask
		tgt   Entity
	}
	n int
}

func (r *hSeqRec) Subscriptions() event.Subscription { return event.All }
func (r *hSeqRec) Components() *Mask                 { return nil }
func (r *hSeqRec) Notify(w *World, e EntityEvent) {
	vBound(r.n < 40, "events<=40")
	r.ev[r.n].e, r.ev[r.n].types, r.ev[r.n].add, r.ev[r.n].rem, r.ev[r.n].tgt = e.Entity, e.EventTypes, e.Added, e.Removed, e.OldTarget
	r.n++
}

// twinStep applies the same operation (arguments picked once, from world 1's model) to both worlds.
func twinStep(x1, x2 *hW, op int) {
	sets := [6]uint8{0, 1 << uA, 1<<uA | 1<<uB, 1 << uR1, 1<<uA | 1<<uR1, 1<<uA | 1<<uR2}
	switch op {
	case 0:
		s := sets[vChoice("set", 6)]
		x1.opNewEntityWith(s)
		x2.opNewEntityWith(s)
	case 1:
		s := sets[3+vChoice("set", 3)]
		t := x1.pickOKTarget("tgt")
		x1.opBuilderNew(s, hRelOf(s), true, t, false)
		x2.opBuilderNew(s, hRelOf(s), true, t, false)
	case 2:
		i := x1.pickAliveIdx("ent")
		x1.opRemoveEntity(i)
		x2.opRemoveEntity(i)
	case 3:
		i := x1.pickAliveIdx("ent")
		add, rem := x1.pickXchg(i, -1, -1, false)
		x1.opExchange(i, add, rem, 0)
		x2.opExchange(i, add, rem, 0)
	case 4:
		var idx [hMaxH]int
		n := 0
		for j := 0; j < x1.n; j++ {
			if x1.alive[j] && hRelOf(x1.set[j]) >= 0 {
				idx[n] = j
				n++
			}
		}
		i := idx[vChoice("ent", n)]
		t := x1.pickOKTarget("tgt")
		x1.opSetRelation(i, hRelOf(x1.set[i]), t)
		x2.opSetRelation(i, hRelOf(x2.set[i]), t)
	case 5:
		f := [4]int{fAll, fA, fR1, fRelT}[vChoice("filter", 4)]
		t := Entity{}
		if f == fRelT {
			t = x1.pickTarget("filter.tgt")
		}
		b1, b2 := x1.mkFilter(f, t), x2.mkFilter(f, t)
		x1.opRemoveEntities(b1.f, f, t)
		x2.opRemoveEntities(b2.f, f, t)
	case 6:
		cnt := 1 + vChoice("count", 3)
		vAssume(x1.n+cnt <= hMaxH)
		s := sets[vChoice("set", 3)]
		x1.opNewBatch(s, cnt, -1, false, Entity{}, false, false)
		x2.opNewBatch(s, cnt, -1, false, Entity{}, false, false)
	case 7:
		x1.opReset()
		x2.opReset()
	case 9: // Reset, then relation tables are re-created for new parents (retired tables are re-used)
		s := sets[3+vChoice("set", 2)]
		for _, x := range [2]*hW{x1, x2} {
			// two more tables of the same component set with different targets
			x.opNewEntity(0)
			x.opNewEntity(0)
			x.opBuilderNew(s, hRelOf(s), true, x.h[x.n-2], false)
			x.opBuilderNew(s, hRelOf(s), true, x.h[x.n-2], false)
			x.opReset()
			x.opNewEntity(0)
			x.opNewEntity(0)
			x.opNewEntity(0)
		}
		order := [3][3]int{{0, 1, 2}, {2, 0, 1}, {1, 2, 0}}[vChoice("order", 3)]
		for _, k := range order {
			for _, x := range [2]*hW{x1, x2} {
				x.opBuilderNew(s, hRelOf(s), true, x.h[k], false)
			}
		}
	case 8: // batch exchange through a filter
		f, t := x1.pickFilter("filter")
		add, rem := x1.pickBatchXchg(f, t, false)
		b1, b2 := x1.mkFilter(f, t), x2.mkFilter(f, t)
		x1.opBatchExchange(b1.f, f, t, add, rem, 0, false, -1, Entity{})
		x2.opBatchExchange(b2.f, f, t, add, rem, 0, false, -1, Entity{})
	}
}

func sameOrder(x1, x2 *hW) {
	for f := fAll; f <= fR1; f++ {
		b1, b2 := x1.mkFilter(f, Entity{}), x2.mkFilter(f, Entity{})
		q1, q2 := x1.w.Query(b1.f), x2.w.Query(b2.f)
		o1, n1 := hOrder(&q1)
		o2, n2 := hOrder(&q2)
		vAssert(n1 == n2, "nondeterminism: two identical histories yield different query results")
		for i := 0; i < n1 && i < n2; i++ {
			vAssert(o1[i] == o2[i], "nondeterminism: two identical histories yield a different query iteration order")
		}
	}
	d1, d2 := x1.w.DumpEntities(), x2.w.DumpEntities()
	vAssert(len(d1.Entities) == len(d2.Entities) && len(d1.Alive) == len(d2.Alive) && d1.Next == d2.Next && d1.Available == d2.Available, "nondeterminism: two identical histories yield different entity dumps")
	for i := 0; i < len(d1.Alive) && i < len(d2.Alive); i++ {
		vAssert(d1.Alive[i] == d2.Alive[i], "nondeterminism: two identical histories yield different entity dumps")
	}
}

func HC13_Determinism() {
	prof, capInc, relInc := hConfig2()
	x1, x2 := hNew(prof, 6, capInc, relInc), hNew(prof, 6, capInc, relInc)
	r1, r2 := &hSeqRec{}, &hSeqRec{}
	x1.w.SetListener(r1)
	x2.w.SetListener(r2)
	// registered filters (their table lists are maintained through map lookups)
	m1, m2 := All(x1.id[uA]), All(x2.id[uA])
	c1, c2 := x1.w.Cache().Register(&m1), x2.w.Cache().Register(&m2)
	switch vChoice("scenario", 5) {
	case 0:
		pf := [6]int{3, 8, 1, 5, 7, 9}[vChoice("prefix", 3+3*vTier())]
		x1.prefix(pf)
		x2.prefix(pf)
		steps := 1 + vTier()
		for s := 0; s < steps; s++ {
			if s == 0 {
				twinStep(x1, x2, vChoice("op", 10))
			} else {
				twinStep(x1, x2, [4]int{0, 2, 7, 9}[vChoice("op2", 4)]) // second step: reduced set
			}
		}
	case 1: // a target with empty tables in several nodes dies while a registered filter lists them
		A, B, R1, R2 := uint8(1<<uA), uint8(1<<uB), uint8(1<<uR1), uint8(1<<uR2)
		for _, x := range [2]*hW{x1, x2} {
			x.opNewEntity(0)
			x.opBuilderNew(A|R1, uR1, true, x.h[0], false)
			x.opBuilderNew(A|B|R1, uR1, true, x.h[0], false)
			x.opBuilderNew(A|R2, uR2, true, x.h[0], false)
			x.opRemoveEntity(1)
			x.opRemoveEntity(2)
			x.opRemoveEntity(3)
			x.opNewEntityWith(A | 1<<uC) // tables listed after the relation tables
			x.opNewEntityWith(A | 1<<uZ)
			x.opNewEntityWith(A | B | 1<<uC)
			x.opRemoveEntity(0) // the target dies: its empty tables are retired
		}
	case 3: // Reset over a registered filter that lists relation tables interleaved with surviving tables
		A, B, C, R1 := uint8(1<<uA), uint8(1<<uB), uint8(1<<uC), uint8(1<<uR1)
		for k, x := range [2]*hW{x1, x2} {
			vMapOrderFixed(k == 0) // world 1 ranges over maps in insertion order, world 2 in every order
			x.opNewEntity(0)
			x.opNewEntity(0)
			x.opNewEntity(0)
			// table creation order R R P R P P: the order in which the relation tables leave the
			// registered filter's list decides the order of the surviving ones
			x.opBuilderNew(A|R1, uR1, true, x.h[0], false)
			x.opBuilderNew(A|R1, uR1, true, x.h[1], false)
			x.opNewEntityWith(A)
			x.opBuilderNew(A|R1, uR1, true, x.h[2], false)
			x.opNewEntityWith(A | B)
			x.opNewEntityWith(A | C)
			x.opReset()
			x.opNewEntityWith(A | C)
			x.opNewEntityWith(A)
			x.opNewEntityWith(A | B)
			x.opNewEntity(0)
			x.opBuilderNew(A|R1, uR1, true, x.h[3], false)
		}
		vMapOrderFixed(false)
	case 4: // Reset of a relation node whose free list is longer than its set of live tables
		A, R1 := uint8(1<<uA), uint8(1<<uR1)
		for k, x := range [2]*hW{x1, x2} {
			vMapOrderFixed(k == 0)
			for j := 0; j < 5; j++ {
				x.opNewEntity(0)
			}
			for j := 0; j < 5; j++ {
				x.opBuilderNew(A|R1, uR1, true, x.h[j], false)
			}
			for j := 0; j < 3; j++ { // three tables retired, two stay live
				x.opRemoveEntity(5 + j)
				x.opRemoveEntity(j)
			}
			x.opReset()
			for j := 0; j < 3; j++ {
				x.opNewEntity(0)
			}
			for j := 0; j < 3; j++ {
				x.opBuilderNew(A|R1, uR1, true, x.h[j], false)
			}
		}
		vMapOrderFixed(false)
	default: // several targets die in one batch call, their table slots are re-used afterwards
		A, R1 := uint8(1<<uA), uint8(1<<uR1)
		nt := 2 + vChoice("targets", 2)
		for _, x := range [2]*hW{x1, x2} {
			for k := 0; k < nt; k++ {
				x.opNewEntity(0)
			}
			for k := 0; k < nt; k++ {
				x.opBuilderNew(A|R1, uR1, true, x.h[k], false)
			}
			for k := 0; k < nt; k++ {
				x.opRemoveEntity(nt + k)
			}
			b := x.mkFilter(fAll, Entity{})
			x.opRemoveEntities(b.f, fAll, Entity{}) // removes all targets in one call
			x.opReset()                               // model capacity: start counting handles again
			for k := 0; k < nt; k++ {
				x.opNewEntity(0)
			}
			for k := 0; k < nt; k++ {
				x.opBuilderNew(A|R1, uR1, true, x.h[k], true)
			}
		}
	}
	for i := 0; i < x1.n; i++ {
		vAssert(x1.h[i] == x2.h[i], "nondeterminism: two identical histories issue different handles")
	}
	vAssert(x1.n == x2.n, "nondeterminism: two identical histories issue a different number of handles")
	vAssert(r1.n == r2.n, "nondeterminism: two identical histories emit a different number of events")
	for i := 0; i < r1.n && i < r2.n; i++ {
		vAssert(r1.ev[i] == r2.ev[i], "nondeterminism: two identical histories emit different event sequences")
	}
	x1.w.SetListener(nil)
	x2.w.SetListener(nil)
	sameOrder(x1, x2)
	q1, q2 := x1.w.Query(&c1), x2.w.Query(&c2)
	o1, n1 := hOrder(&q1)
	o2, n2 := hOrder(&q2)
	vAssert(n1 == n2, "nondeterminism: registered filter yields different results")
	for i := 0; i < n1 && i < n2; i++ {
		vAssert(o1[i] == o2[i], "nondeterminism: registered filter yields a different iteration order")
	}
	vReach("end")
}
