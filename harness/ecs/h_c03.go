package ecs

// C03: queries visit exactly the matching entities once; Count / EntityAt /
// Step agree with the iteration, for plain, registered and batch-result queries.

func init() {
	vRegister("HC03_Query", HC03_Query)
	vRegister("HC03_BatchQuery", HC03_BatchQuery)
}

// order iterates a fresh query and returns the visited entities.
func hOrder(q *Query) ([hMaxH]Entity, int) {
	var ord [hMaxH]Entity
	n := 0
	for q.Next() {
		vBound(n < hMaxH, "visited<=10")
		ord[n] = q.Entity()
		n++
	}
	return ord, n
}

// hIndexRange: the registered bound for symbolic indices and step sizes.
func hIntBound(v int) bool { return v >= -(1<<31) && v < (1<<31) }

// probeEntityAt: EntityAt(i) for a fully symbolic i against the iteration order.
func probeEntityAt(q *Query, ord *[hMaxH]Entity, n int, wide bool) {
	i := vInt("index")
	if !wide {
		vAssume(hIntBound(i))
	}
	var e Entity
	pan, _ := vCatch(func() { e = q.EntityAt(i) })
	inRange := i >= 0 && i < n
	vAssert(pan == !inRange, "EntityAt panics exactly for indices outside [0, Count)")
	if !pan && inRange {
		vAssert(e == ord[i], "EntityAt(i) is the i-th entity of the iteration")
	}
}

// probeStep: j calls of Next, then Step(s) for a fully symbolic s.
func probeStep(q *Query, ord *[hMaxH]Entity, n int, wide bool) {
	j := vChoice("nexts", n+1)
	for k := 0; k < j; k++ {
		vAssert(q.Next(), "Next succeeds while entities remain")
	}
	s := vInt("step")
	if !wide {
		vAssume(hIntBound(s))
	}
	ok := false
	pan, _ := vCatch(func() { ok = q.Step(s) })
	vAssert(pan == (s <= 0), "Step panics exactly for non-positive step sizes")
	if pan {
		return
	}
	lands := s >= 1 && s <= n-j
	vAssert(ok == lands, "Step(k) succeeds exactly when k more entities exist")
	if ok && lands {
		vAssert(q.Entity() == ord[j+s-1], "Step(k) lands where k calls of Next would")
		q.Close()
	}
}

func HC03_Query() {
	prof, capInc, relInc := hConfig()
	x := hNew(prof, 6, capInc, relInc)
	x.prefix(vChoice("prefix", hNPrefix))
	if vTier() == 1 {
		x.legalStepSmall([3]int{0, 2, 8}[vChoice("op", 3)])
	}
	f, t := x.pickFilter("filter")
	relOnly := false
	if f == fRelAT && vChoice("inner", 2) == 1 {
		// RelationFilter{All(A), T}: the component filter also matches tables without relation.
		// What it selects among entities without relation is not specified by the properties;
		// decided here: Count / EntityAt / Step agree with the iteration, and among the
		// relation-carrying entities exactly those with A and target T are visited.
		f = fRelOnlyA
		relOnly = true
	}
	b := x.mkFilter7(f, t)
	flt := b.f
	var cf CachedFilter
	if vChoice("registered", 2) == 1 {
		cf = x.w.Cache().Register(b.f)
		flt = &cf
		for i := 0; i < x.n; i++ {
			if x.alive[i] {
				m := x.w.Mask(x.h[i])
				vAssert(cf.Matches(&m) == b.f.Matches(&m), "a registered filter matches like the filter it wraps")
			}
		}
	}
	if !relOnly {
		x.checkQuery(flt, f, t)
	}
	q := x.w.Query(flt)
	ord, n := hOrder(&q)
	if !relOnly {
		_, want := x.matching(f, t)
		vAssert(n == want, "iteration visits exactly the matching entities")
	} else {
		for j := 0; j < x.n; j++ {
			if !x.alive[j] || hRelOf(x.set[j]) < 0 {
				continue
			}
			visited := false
			for i := 0; i < n; i++ {
				if ord[i] == x.h[j] {
					visited = true
				}
			}
			vAssert(visited == (x.set[j]&(1<<uA) != 0 && x.tgt[j] == t), "among relation-carrying entities a relation filter visits exactly those matching its component filter with target T")
		}
		for i := 0; i < n; i++ {
			for k := i + 1; k < n; k++ {
				vAssert(ord[i] != ord[k], "query visits no entity twice")
			}
		}
	}
	q2 := x.w.Query(flt)
	vAssert(q2.Count() == n, "Count equals the number of entities visited")
	mode := vChoice("mode", 2)
	wide := vChoice("wide", 2) == 1 // unbounded 64-bit indices / steps
	if mode == 0 {
		probeEntityAt(&q2, &ord, n, wide)
		q2.Close()
	} else {
		probeStep(&q2, &ord, n, wide)
	}
	vAssert(vImplies(mode == 0, !x.w.IsLocked()), "closing the query releases its lock")
	vReach("end")
}

// HC03_BatchQuery: the queries returned by Q variants of batch operations.
func HC03_BatchQuery() {
	prof, capInc, relInc := hConfig()
	x := hNew(prof, 6, capInc, relInc)
	x.prefix(vChoice("prefix", hNPrefix))
	var q Query
	n := 0
	switch vChoice("op", 3) {
	case 0: // AddQ / RemoveQ / ExchangeQ merging source tables
		f, t := x.pickFilter("filter")
		b := x.mkFilter(f, t)
		add, rem := x.pickBatchXchg(f, t, false)
		_, n = x.matching(f, t)
		q = x.w.Batch().ExchangeQ(b.f, x.ids(add), x.ids(rem))
	case 1: // SetRelationQ: only entities whose target changes
		f, t := x.pickFilter("filter")
		vAssume(f >= fR1)
		b := x.mkFilter(f, t)
		nt := x.pickOKTarget("newtgt")
		for j := 0; j < x.n; j++ {
			if x.modelMatch(j, f, t) && x.tgt[j] != nt {
				n++
			}
		}
		q = x.w.Batch().SetRelationQ(b.f, x.id[uR1], nt)
	default: // NewBatchQ into a possibly populated table
		cnt := 1 + vChoice("count", 3)
		s := [4]uint8{0, 1 << uA, 1<<uA | 1<<uB, 1<<uA | 1<<uR1}[vChoice("set", 4)]
		n = cnt
		q = NewBuilder(&x.w, x.ids(s)...).NewBatchQ(cnt)
	}
	vAssert(q.Count() == n, "batch query Count equals the number of affected entities")
	// EntityAt for every index first (the query can be iterated only once)
	var at [hMaxH]Entity
	vAssume(n <= hMaxH)
	for i := 0; i < n; i++ {
		at[i] = q.EntityAt(i)
	}
	mode := vChoice("mode", 3)
	switch mode {
	case 0: // iteration agrees with EntityAt and visits n distinct entities
		k := 0
		for q.Next() {
			vAssert(k < n, "batch query visits no more than Count entities")
			if k < n {
				vAssert(q.Entity() == at[k], "EntityAt(i) is the i-th entity of the batch query's iteration")
				for m := 0; m < k; m++ {
					vAssert(at[m] != at[k], "batch query visits no entity twice")
				}
			}
			k++
		}
		vAssert(k == n, "batch query visits exactly Count entities")
	case 1:
		probeEntityAt(&q, &at, n, false)
		q.Close()
	default:
		probeStep(&q, &at, n, false)
	}
	vReach("end")
}
