package ecs

import "github.com/mlange-42/arche/ecs/event"

// C11: entity events are complete and truthful. A recording listener
// subscribed to everything logs every event together with what the world shows
// at delivery time; after each operation the log must equal, as a multiset, the
// events predicted from the model's before/after states per the documentation.

func init() {
	vRegister("HC11_Events", HC11_Events)
}

const hMaxEv = 12

type hEvent struct {
	e                Entity
	added, removed   Mask
	nAdded, nRemoved int
	idsOK            bool
	containsOK       bool
	hasOld, hasNew   bool
	oldRel, newRel   ID
	oldTarget        Entity
	types            event.Subscription
	// observed at delivery
	locked, alive bool
	maskNow       Mask
	tgtNow        Entity
	hasTgtNow     bool
}

type hRec struct {
	x    *hW
	ev   [hMaxEv]hEvent
	n    int
	subs event.Subscription
	comp *Mask
	// restricted: the listener receives only the part of the stream selected by (subs, comp)
	restricted bool
}

func (r *hRec) Subscriptions() event.Subscription { return r.subs }
func (r *hRec) Components() *Mask                 { return r.comp }
func (r *hRec) Notify(w *World, e EntityEvent) {
	vBound(r.n < hMaxEv, "events<=12")
	ev := &r.ev[r.n]
	*ev = hEvent{}
	r.n++
	ev.e, ev.added, ev.removed, ev.types, ev.oldTarget = e.Entity, e.Added, e.Removed, e.EventTypes, e.OldTarget
	ev.nAdded, ev.nRemoved = len(e.AddedIDs), len(e.RemovedIDs)
	ev.idsOK = true
	for _, id := range e.AddedIDs {
		if !e.Added.Get(id) {
			ev.idsOK = false
		}
	}
	for _, id := range e.RemovedIDs {
		if !e.Removed.Get(id) {
			ev.idsOK = false
		}
	}
	ev.containsOK = true
	for _, bit := range [6]event.Subscription{event.EntityCreated, event.EntityRemoved, event.ComponentAdded, event.ComponentRemoved, event.RelationChanged, event.TargetChanged} {
		if e.Contains(bit) != (e.EventTypes&bit != 0) {
			ev.containsOK = false
		}
	}
	if e.OldRelation != nil {
		ev.hasOld, ev.oldRel = true, *e.OldRelation
	}
	if e.NewRelation != nil {
		ev.hasNew, ev.newRel = true, *e.NewRelation
	}
	ev.locked = w.IsLocked()
	ev.alive = w.Alive(e.Entity)
	if ev.alive {
		ev.maskNow = w.Mask(e.Entity)
		if w.entities[e.Entity.id].arch.HasRelationComponent {
			ev.hasTgtNow = true
			ev.tgtNow = w.Relations().Get(e.Entity, w.entities[e.Entity.id].arch.RelationComponent)
		}
	}
}

// model snapshot
type hSnap struct {
	n     int
	h     [hMaxH]Entity
	alive [hMaxH]bool
	set   [hMaxH]uint8
	tgt   [hMaxH]Entity
}

func (x *hW) snap() hSnap { return hSnap{n: x.n, h: x.h, alive: x.alive, set: x.set, tgt: x.tgt} }

func (x *hW) maskOf(set uint8) Mask {
	var m Mask
	for k := 0; k < x.nu; k++ {
		if set&(1<<k) != 0 {
			m.Set(x.id[k], true)
		}
	}
	return m
}

// checkEvents compares the recorded events with the prediction from before -> now.
// afterReset: the operation was a Reset (no events, handles restart).
func (x *hW) checkEvents(r *hRec, before *hSnap, wasReset bool) {
	var used [hMaxEv]bool
	want := 0
	if wasReset {
		vAssert(r.n == 0, "Reset emits no entity events")
		return
	}
	for i := 0; i < x.n; i++ {
		existed := i < before.n
		wasAlive := existed && before.alive[i]
		isAlive := x.alive[i]
		var bset, aset uint8
		var btgt, atgt Entity
		if wasAlive {
			bset, btgt = before.set[i], before.tgt[i]
		}
		if isAlive {
			aset, atgt = x.set[i], x.tgt[i]
		}
		created := !wasAlive && isAlive && !existed
		removed := wasAlive && !isAlive
		changed := wasAlive && isAlive && (bset != aset || btgt != atgt)
		if !created && !removed && !changed {
			continue
		}
		want++
		// find the event of this entity
		idx := -1
		for k := 0; k < r.n; k++ {
			if !used[k] && r.ev[k].e == x.h[i] {
				idx = k
				break
			}
		}
		added, rem := aset&^bset, bset&^aset
		brel, arel := hRelOf(bset), hRelOf(aset)
		if r.restricted {
			// documented selection rule applied to the full event the change produces
			pb := x.predictBits(created, removed, added, rem, brel, arel, btgt, atgt)
			am, rm := x.maskOf(added), x.maskOf(rem)
			var oldRel, newRel *ID
			if brel >= 0 {
				oldRel = &x.id[brel]
			}
			if arel >= 0 {
				newRel = &x.id[arel]
			}
			accept := HSubscribesSpec(uint8(r.subs)&uint8(pb), &am, &rm, r.comp, oldRel, newRel)
			vAssert((idx >= 0) == accept, "a restricted listener receives exactly the events selected by the documented rule")
			if idx < 0 {
				want--
				continue
			}
		}
		vAssert(idx >= 0, "every changed entity gets an event")
		if idx < 0 {
			continue
		}
		used[idx] = true
		ev := &r.ev[idx]
		var bits event.Subscription
		if created {
			bits |= event.EntityCreated
		}
		if removed {
			bits |= event.EntityRemoved
		}
		if added != 0 {
			bits |= event.ComponentAdded
		}
		if rem != 0 {
			bits |= event.ComponentRemoved
		}
		relChanged := brel != arel
		if relChanged {
			bits |= event.RelationChanged
		}
		if relChanged || btgt != atgt || (created && arel >= 0) || (removed && brel >= 0) {
			bits |= event.TargetChanged
		}
		vAssert(ev.types == bits, "event type bits name exactly the kinds of change")
		vAssert(ev.added == x.maskOf(added), "Added is the set of added components")
		vAssert(ev.removed == x.maskOf(rem), "Removed is the set of removed components")
		vAssert(ev.idsOK && ev.nAdded == hPop(added) && ev.nRemoved == hPop(rem), "AddedIDs / RemovedIDs equal the masks as sets")
		vAssert(ev.containsOK, "EntityEvent.Contains reports exactly the type bits of the event")
		vAssert(ev.hasOld == (brel >= 0), "OldRelation is nil exactly without an old relation")
		vAssert(ev.hasNew == (arel >= 0), "NewRelation is nil exactly without a new relation")
		if brel >= 0 && ev.hasOld {
			vAssert(ev.oldRel == x.id[brel], "OldRelation is the relation before the change")
		}
		if arel >= 0 && ev.hasNew {
			vAssert(ev.newRel == x.id[arel], "NewRelation is the relation after the change")
		}
		vAssert(ev.oldTarget == btgt, "OldTarget is the target before the change")
		// state at delivery
		vAssert(ev.alive, "the entity is alive (inspectable) when its event is delivered")
		if removed {
			vAssert(ev.locked, "removal events are delivered with the world locked")
			vAssert(ev.maskNow == x.maskOf(bset), "removal events are delivered before the removal")
			if brel >= 0 {
				vAssert(ev.hasTgtNow && ev.tgtNow == btgt, "removal events show the target before the removal")
			}
		} else {
			vAssert(!ev.locked, "events are delivered with the world unlocked")
			vAssert(ev.maskNow == x.maskOf(aset), "events are delivered after the change")
			if arel >= 0 {
				vAssert(ev.hasTgtNow && ev.tgtNow == atgt, "events are delivered after the target change")
			}
		}
	}
	vAssert(r.n == want, "exactly one event per changed entity, none otherwise")
}

// predictBits: the type bits of the full event for a change.
func (x *hW) predictBits(created, removed bool, added, rem uint8, brel, arel int, btgt, atgt Entity) event.Subscription {
	var bits event.Subscription
	if created {
		bits |= event.EntityCreated
	}
	if removed {
		bits |= event.EntityRemoved
	}
	if added != 0 {
		bits |= event.ComponentAdded
	}
	if rem != 0 {
		bits |= event.ComponentRemoved
	}
	relChanged := brel != arel
	if relChanged {
		bits |= event.RelationChanged
	}
	if relChanged || btgt != atgt || (created && arel >= 0) || (removed && brel >= 0) {
		bits |= event.TargetChanged
	}
	return bits
}

const hNEvFamilies = 4

func HC11_Events() {
	prof, capInc, relInc := hConfig2()
	x := hNew(prof, 6, capInc, relInc)
	x.prefix([8]int{0, 1, 3, 4, 7, 8, 9, 11}[vChoice("prefix", 8)])
	rec := &hRec{x: x, subs: event.All}
	x.w.SetListener(rec)
	x.rec = rec
	before := x.snap()
	wasReset := false
	switch vChoice("family", hNEvFamilies) {
	case 0:
		x.legalStep(vChoice("op", hNOps))
	case 1:
		x.batchStep(vChoice("op", hNBatchOps))
	case 2:
		op := vChoice("op", hNDeathOps)
		wasReset = op == 4
		x.deathStep(op)
	default: // calls that change nothing must emit nothing and succeed
		i := x.pickAliveIdx("ent")
		e := x.h[i]
		var pan bool
		switch vChoice("noop", 4) {
		case 0:
			pan, _ = vCatch(func() { x.w.Exchange(e, nil, nil) })
		case 1:
			pan, _ = vCatch(func() { x.w.Add(e) })
		case 2:
			pan, _ = vCatch(func() { x.w.Remove(e) })
		default:
			r := hRelOf(x.set[i])
			vAssume(r >= 0 && x.tgtOK(x.tgt[i])) // re-assigning a dead target is illegal, not a no-op
			pan, _ = vCatch(func() { x.w.Relations().Set(e, x.id[r], x.tgt[i]) })
		}
		vAssert(!pan, "an operation without effect succeeds with a listener installed")
	}
	x.checkEvents(rec, &before, wasReset)
	x.check()
	vReach("end")
}

func init() { vRegister("HC11_Reentrant", HC11_Reentrant) }

// hReRec: a listener that itself changes the world while events of a batch are
// being delivered (non-removal events arrive with the world unlocked, so this is
// legal) and checks every event's id lists against its masks at delivery time.
type hReRec struct {
	w       *World
	ids     [3]ID
	n       int
	nested  bool
	allOK   bool
	nBatch  int
	batchOK bool
	other   Entity
}

func (r *hReRec) Subscriptions() event.Subscription { return event.All }
func (r *hReRec) Components() *Mask                 { return nil }
func (r *hReRec) Notify(w *World, e EntityEvent) {
	r.n++
	ok := len(e.AddedIDs) == e.Added.TotalBitsSet() && len(e.RemovedIDs) == e.Removed.TotalBitsSet()
	for _, id := range e.AddedIDs {
		ok = ok && e.Added.Get(id)
	}
	for _, id := range e.RemovedIDs {
		ok = ok && e.Removed.Get(id)
	}
	if !ok {
		r.allOK = false
	}
	if !r.nested {
		// an event of the outer batch: exactly component A was added
		r.nBatch++
		if !(len(e.AddedIDs) == 1 && e.AddedIDs[0] == r.ids[0] && e.Added == All(r.ids[0])) {
			r.batchOK = false
		}
	}
	if !r.nested && r.nBatch == 1 && !w.IsLocked() {
		r.nested = true
		w.NewEntityWith(Component{ID: r.ids[1], Comp: &hB{}}, Component{ID: r.ids[2], Comp: &hC{}})
		w.Assign(r.other, Component{ID: r.ids[2], Comp: &hC{}})
		w.Add(r.other, r.ids[1])
		r.nested = false
	}
}

// HC11_Reentrant: events of a batch stay exact while the listener performs further operations.
func HC11_Reentrant() {
	w := NewWorld(NewConfig().WithCapacityIncrement(1 + vChoice("capinc", 2)))
	r := &hReRec{w: &w, allOK: true, batchOK: true}
	r.ids = [3]ID{ComponentID[hA](&w), ComponentID[hB](&w), ComponentID[hC](&w)}
	r.other = w.NewEntity()
	how := vChoice("how", 4)
	if how == 3 {
		w.NewEntity()
		w.NewEntity()
		w.NewEntity()
	}
	w.SetListener(r)
	switch how {
	case 0:
		NewBuilderWith(&w, Component{ID: r.ids[0], Comp: &hA{X: 5}}).NewBatch(3)
	case 1:
		q := NewBuilderWith(&w, Component{ID: r.ids[0], Comp: &hA{X: 5}}).NewBatchQ(3)
		q.Close()
	case 2:
		NewBuilder(&w, r.ids[0]).NewBatch(3)
	default:
		all := All()
		excl := all.Exclusive()
		vAssert(w.Batch().Add(&excl, r.ids[0]) == 4, "Batch.Add returns the number of matching entities")
		r.nBatch-- // the fourth matching entity is `other`
	}
	vAssert(r.allOK, "AddedIDs / RemovedIDs equal the masks as sets in every event, also while the listener changes the world")
	vAssert(r.batchOK && r.nBatch == 3, "the events of a batch stay exact while the listener performs further operations")
	vReach("end")
}
