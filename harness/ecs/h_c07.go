package ecs

// C07: registering a filter never changes what it selects.
// Each registered filter is compared with the original filter on the same
// world (same entities visited, same Count), and batch operations through the
// registered filter are compared with the model.

func init() {
	vRegister("HC07_Before", HC07_Before)
	vRegister("HC07_After", HC07_After)
	vRegister("HC07_Unregister", HC07_Unregister)
}

const fRelOnlyA = hNFilters // RelationFilter{All(A), T}: inner filter does not require the relation

func (x *hW) mkFilter7(f int, t Entity) *hFilterBox {
	if f == fRelOnlyA {
		b := &hFilterBox{}
		b.m = All(x.id[uA])
		b.rf = NewRelationFilter(&b.m, t)
		b.f = &b.rf
		return b
	}
	return x.mkFilter(f, t)
}

// craftedTarget: handles that will be issued later are predictable (id k, generation g).
func craftedTarget(name string) Entity {
	k := vChoice(name, 5)
	switch k {
	case 0:
		return Entity{}
	case 1:
		return Entity{1, 0}
	case 2:
		return Entity{2, 0}
	case 3:
		return Entity{1, 1}
	default:
		return Entity{3, 0}
	}
}

// sameSelection: the registered filter selects exactly what the original selects.
func (x *hW) sameSelection(cf *CachedFilter, plain Filter) {
	q1 := x.w.Query(plain)
	c1 := q1.Count()
	ord1, n1 := hOrder(&q1)
	q2 := x.w.Query(cf)
	c2 := q2.Count()
	ord2, n2 := hOrder(&q2)
	vAssert(c1 == c2, "registered filter: Count equals the original filter's Count")
	vAssert(n1 == n2, "registered filter visits as many entities as the original filter")
	vAssert(c1 == n1 && c2 == n2, "Count equals the number of visited entities")
	for i := 0; i < n1; i++ {
		found := 0
		for j := 0; j < n2; j++ {
			if ord1[i] == ord2[j] {
				found++
			}
		}
		vAssert(found == 1, "registered filter visits exactly the entities of the original filter")
	}
}

// cacheStep: operations that create, retire, re-activate or empty tables, and
// batch operations through the registered filter.
func (x *hW) cacheStep(op int, cf *CachedFilter, plain Filter, f int, t Entity) {
	sets := [6]uint8{1 << uA, 1<<uA | 1<<uB, 1 << uR1, 1<<uA | 1<<uR1, 1<<uA | 1<<uR2, 1<<uB | 1<<uC}
	switch op {
	case 0:
		x.opNewEntity(sets[vChoice("set", 6)])
	case 1:
		s := sets[2+vChoice("set", 3)]
		x.opBuilderNew(s, hRelOf(s), true, x.pickOKTarget("tgt"), false)
	case 2:
		x.opRemoveEntity(x.pickAliveIdx("ent"))
	case 3:
		x.deathStep(3) // Relations.Set
	case 4:
		x.opReset()
	case 5: // Reset, then the first handles are re-issued and children created for them
		x.opReset()
		x.opNewEntity(0)
		x.opNewEntity(0)
		s := sets[2+vChoice("set", 2)]
		x.opBuilderNew(s, hRelOf(s), true, x.pickOKTarget("tgt"), false)
	case 6: // Batch.RemoveEntities through the registered filter
		if f == fRelOnlyA {
			q := x.w.Query(plain)
			want := q.Count()
			q.Close()
			got := x.w.Batch().RemoveEntities(cf)
			vAssert(got == want, "RemoveEntities through a registered filter removes what the original filter selects")
			x.n = 0 // model not tracked for the ambiguous filter
		} else {
			x.opRemoveEntities(cf, f, t)
		}
	case 7: // Batch exchange through the registered filter
		vAssume(f != fRelOnlyA)
		add, rem := x.pickBatchXchg(f, t, false)
		x.opBatchExchange(cf, f, t, add, rem, 0, vChoice("q", 2) == 1, -1, Entity{})
	case 8: // Batch SetRelation through the registered filter
		vAssume(f >= fR1 && f != fRelOnlyA)
		_, m := x.matching(f, t)
		vAssume(m >= 1)
		x.opBatchSetRelation(cf, f, t, uR1, x.pickOKTarget("newtgt"), vChoice("q", 2) == 1, false)
	case 9: // remove by filter: tables retire / stay
		x.deathStep(1)
	}
}

const hNCacheOps = 10

var hCachePrefixes = [11]int{0, 1, 3, 4, 5, 7, 8, 9, 10, 11, 12}

func hConfig2() (int, int, int) {
	if vTier() == 0 {
		if vChoice("config", 2) == 0 {
			return 0, 1, 1
		}
		return 1, 2, 2
	}
	nprof := 4
	if MaskTotalBits == 64 {
		nprof = 2
	}
	c := [4][3]int{{0, 1, 1}, {1, 2, 2}, {2, 3, 1}, {3, 2, 2}}[vChoice("config", 4)]
	return c[0] % nprof, c[1], c[2]
}

// HC07_Before: the filter is registered before any entity or table exists.
func HC07_Before() {
	prof, capInc, relInc := hConfig2()
	x := hNew(prof, 6, capInc, relInc)
	f := vChoice("filter", fRelOnlyA+1)
	t := Entity{}
	if f >= fRelT {
		t = craftedTarget("target")
	}
	b := x.mkFilter7(f, t)
	cf := x.w.Cache().Register(b.f)
	x.prefix(hCachePrefixes[vChoice("prefix", len(hCachePrefixes))])
	x.sameSelection(&cf, b.f)
	x.inv()
	x.cacheStep(vChoice("op", hNCacheOps), &cf, b.f, f, t)
	x.inv()
	x.sameSelection(&cf, b.f)
	if x.n > 0 {
		x.check()
	}
	vReach("end")
}

// HC07_After: the filter is registered after the prefix (tables exist, some retired).
func HC07_After() {
	prof, capInc, relInc := hConfig2()
	x := hNew(prof, 6, capInc, relInc)
	x.prefix(hCachePrefixes[vChoice("prefix", len(hCachePrefixes))])
	f := vChoice("filter", fRelOnlyA+1)
	t := Entity{}
	if f >= fRelT {
		t = x.pickTarget("target")
	}
	b := x.mkFilter7(f, t)
	cf := x.w.Cache().Register(b.f)
	x.sameSelection(&cf, b.f)
	x.inv()
	x.cacheStep(vChoice("op", hNCacheOps), &cf, b.f, f, t)
	x.inv()
	x.sameSelection(&cf, b.f)
	if x.n > 0 {
		x.check()
	}
	vReach("end")
}

// HC07_Unregister: Unregister returns the original filter and leaves others working.
func HC07_Unregister() {
	x := hNew(0, 6, 1+vChoice("capinc", 2), 1)
	b1, b2, b3 := x.mkFilter(fA, Entity{}), x.mkFilter(fAnotB, Entity{}), x.mkFilter(fRelT, Entity{1, 0})
	cf1 := x.w.Cache().Register(b1.f)
	x.prefix([3]int{1, 3, 4}[vChoice("prefix", 3)])
	cf2 := x.w.Cache().Register(b2.f)
	cf3 := x.w.Cache().Register(b3.f)
	cfs := [3]*CachedFilter{&cf1, &cf2, &cf3}
	bs := [3]*hFilterBox{b1, b2, b3}
	// double registration of a registered filter panics
	pan, _ := vCatch(func() { x.w.Cache().Register(&cf1) })
	vAssert(pan, "registering a registered filter panics")
	k := vChoice("unregister", 3)
	orig := x.w.Cache().Unregister(cfs[k])
	vAssert(orig == bs[k].f, "Unregister returns the original filter")
	pan, _ = vCatch(func() { x.w.Cache().Unregister(cfs[k]) })
	vAssert(pan, "unregistering twice panics")
	pan, _ = vCatch(func() { q := x.w.Query(cfs[k]); q.Close() })
	vAssert(pan, "using an unregistered filter panics")
	vAssert(!x.w.IsLocked(), "a failed query does not leave the world locked")
	x.cacheStep(vChoice("op", 6), cfs[(k+1)%3], bs[(k+1)%3].f, fA, Entity{})
	for j := 0; j < 3; j++ {
		if j != k {
			x.sameSelection(cfs[j], bs[j].f)
		}
	}
	// a new registration re-uses the freed id and works
	cf4 := x.w.Cache().Register(bs[k].f)
	x.sameSelection(&cf4, bs[k].f)
	// the stale handle of the unregistered filter must not alias the new registration
	pan, _ = vCatch(func() { x.w.Cache().Unregister(cfs[k]) })
	vAssert(pan, "unregistering a stale handle panics also after later registrations")
	pan, _ = vCatch(func() { q := x.w.Query(cfs[k]); q.Close() })
	vAssert(pan, "using a stale handle panics also after later registrations")
	x.sameSelection(&cf4, bs[k].f)
	vAssert(x.w.Cache().Unregister(&cf4) == bs[k].f, "the later registration is intact")
	x.inv()
	vReach("end")
}
