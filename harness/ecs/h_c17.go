package ecs

import "encoding/json"

// C17: entity dump/load reproduces the alive set and the future handle sequence.

func init() {
	vRegister("HC17_DumpLoad", HC17_DumpLoad)
	vRegister("HC17_Refuse", HC17_Refuse)
	vRegister("HC17_Large", HC17_Large)
}

const hDumpH = 8

// a bare world wrapper for handle-only histories
type hHW struct {
	w World
	h [hDumpH]Entity // handles issued, in order
	n int
}

// create: entities of the source world live in different tables (none, plain, relation).
func (y *hHW) create() Entity {
	var e Entity
	switch y.n % 3 {
	case 0:
		e = y.w.NewEntity()
	case 1:
		e = y.w.NewEntity(ComponentID[hA](&y.w))
	default:
		e = y.w.NewEntity(ComponentID[hR1](&y.w))
	}
	vBound(y.n < hDumpH, "handles<=8")
	y.h[y.n] = e
	y.n++
	return e
}

func dumpsEqual(a, b *EntityDump, aliveAsSet bool) {
	vAssert(len(a.Entities) == len(b.Entities), "dumps have the same number of pool slots")
	vAssert(a.Next == b.Next, "dumps agree on the free-list head")
	vAssert(a.Available == b.Available, "dumps agree on the number of free ids")
	if len(a.Entities) == len(b.Entities) {
		for i := range a.Entities {
			vAssert(a.Entities[i] == b.Entities[i], "dumps agree on every pool slot")
		}
	}
	vAssert(len(a.Alive) == len(b.Alive), "dumps agree on the number of alive entities")
	if len(a.Alive) == len(b.Alive) {
		for i := range a.Alive {
			if aliveAsSet {
				found := false
				for j := range b.Alive {
					if a.Alive[i] == b.Alive[j] {
						found = true
					}
				}
				vAssert(found, "dumps agree on the alive set")
			} else {
				vAssert(a.Alive[i] == b.Alive[i], "a loaded world dumps the same alive sequence")
			}
		}
	}
}


// suffix op on a world: 0 create, 1 remove the k-th alive handle of the shared handle list
func hSuffix(ws []*hHW, all *[2 * hDumpH]Entity, nall *int, op int, k int) {
	if op == 0 {
		var first Entity
		for i, y := range ws {
			e := y.w.NewEntity()
			if i == 0 {
				first = e
			} else {
				vAssert(e == first, "original and loaded worlds issue identical handles")
			}
		}
		vBound(*nall < 2*hDumpH, "handles<=16")
		all[*nall] = first
		*nall++
		return
	}
	if op == 2 { // batch creation of two entities (pops recycled ids first, then fresh ones)
		var firstPair [2]Entity
		for i, y := range ws {
			var before [2 * hDumpH]bool
			for j := 0; j < *nall; j++ {
				before[j] = y.w.Alive(all[j])
			}
			q := NewBuilder(&y.w).NewBatchQ(2)
			var pair [2]Entity
			c := 0
			for q.Next() {
				if c < 2 {
					pair[c] = q.Entity()
				}
				c++
			}
			vAssert(c == 2, "batch creation in a loaded world creates the requested entities")
			if i == 0 {
				firstPair = pair
			} else {
				vAssert(pair == firstPair, "original and loaded worlds issue identical handles in batch creation")
			}
			_ = before
		}
		vBound(*nall+1 < 2*hDumpH, "handles<=16")
		all[*nall], all[*nall+1] = firstPair[0], firstPair[1]
		*nall += 2
		return
	}
	// remove: pick the k-th handle that is alive in the first world
	cnt := 0
	for i := 0; i < *nall; i++ {
		if ws[0].w.Alive(all[i]) {
			if cnt == k {
				for _, y := range ws {
					y.w.RemoveEntity(all[i])
				}
				return
			}
			cnt++
		}
	}
	vAssume(false)
}

func HC17_DumpLoad() {
	// capacity increments of source and the two receivers
	caps := [6][3]int{{1, 1, 1}, {2, 1, 3}, {3, 4, 2}, {1, 3, 4}, {2, 2, 1}, {4, 3, 2}}[vChoice("caps", 6)]
	capX := caps[0]
	x := &hHW{w: NewWorld(NewConfig().WithCapacityIncrement(capX))}
	// history before the dump: create n, then remove a symbolic sequence
	// n = 2 lets two removals empty the world before the dump (free list only, no alive entity) in the quick tier too
	// (the thorough tier reaches the empty world with 3 removals from 3 entities and keeps its former choice set)
	n := [3]int{3, 5, 2}[vChoice("n", 3-vTier())]
	for i := 0; i < n; i++ {
		x.create()
	}
	nrem := vChoice("removals", 3+vTier())
	for r := 0; r < nrem; r++ {
		k := vChoice("rem", n)
		vAssume(x.w.Alive(x.h[k]))
		x.w.RemoveEntity(x.h[k])
		if vChoice("recreate", 2) == 0 {
			x.create()
		}
	}
	var all [2 * hDumpH]Entity
	nall := x.n
	for i := 0; i < x.n; i++ {
		all[i] = x.h[i]
	}
	d := x.w.DumpEntities()
	var aliveAtDump [2 * hDumpH]bool
	for i := 0; i < nall; i++ {
		aliveAtDump[i] = x.w.Alive(all[i])
	}
	// receiver 1: fresh world, any capacity increment
	y1 := &hHW{w: NewWorld(NewConfig().WithCapacityIncrement(caps[1]))}
	y1.w.LoadEntities(&d)
	for i := 0; i < nall; i++ {
		vAssert(y1.w.Alive(all[i]) == aliveAtDump[i], "every handle gets the same Alive answer after loading")
	}
	d1 := y1.w.DumpEntities()
	dumpsEqual(&d, &d1, false)
	// the source keeps living after the dump
	mut := vChoice("source-mutation", 3)
	switch mut {
	case 1:
		k := 0
		for k < nall && !x.w.Alive(all[k]) {
			k++
		}
		vAssume(k < nall)
		x.w.RemoveEntity(all[k])
	case 2:
		x.w.NewEntity()
	}
	// receiver 2: fresh or reset world, loaded from the same dump later
	y2 := &hHW{w: NewWorld(NewConfig().WithCapacityIncrement(caps[2]))}
	if vChoice("y2.reset", 2) == 1 {
		a := y2.w.NewEntity()
		y2.w.NewEntity()
		y2.w.RemoveEntity(a)
		y2.w.Reset()
	}
	y2.w.LoadEntities(&d)
	for i := 0; i < nall; i++ {
		vAssert(y2.w.Alive(all[i]) == aliveAtDump[i], "a dump is a snapshot: later changes of the source do not alter what is loaded")
	}
	// common future
	ws := []*hHW{y1, y2}
	if mut == 0 {
		ws = []*hHW{x, y1, y2}
	}
	steps := 2 + vTier()
	for s := 0; s < steps; s++ {
		op := vChoice("suffix", 3)
		k := 0
		if op == 1 {
			k = vChoice("which", 2)
		}
		hSuffix(ws, &all, &nall, op, k)
		for i := 0; i < nall; i++ {
			a := ws[0].w.Alive(all[i])
			for _, y := range ws[1:] {
				vAssert(y.w.Alive(all[i]) == a, "original and loaded worlds agree on Alive after the common suffix")
			}
		}
	}
	e1, e2 := y1.w.DumpEntities(), y2.w.DumpEntities()
	dumpsEqual(&e1, &e2, true)
	if mut == 0 {
		e0 := x.w.DumpEntities()
		dumpsEqual(&e0, &e1, true)
	}
	vReach("end")
}

func HC17_Refuse() {
	w := NewWorld(NewConfig().WithCapacityIncrement(1 + vChoice("cap", 3)))
	src := NewWorld()
	a := src.NewEntity()
	src.NewEntity()
	src.RemoveEntity(a)
	d := src.DumpEntities()
	switch vChoice("state", 4) {
	case 0: // has entities
		w.NewEntity()
		pan, _ := vCatch(func() { w.LoadEntities(&d) })
		vAssert(pan, "loading into a world that has entities is refused")
	case 1: // had entities, all removed, not reset
		e := w.NewEntity()
		w.RemoveEntity(e)
		pan, _ := vCatch(func() { w.LoadEntities(&d) })
		vAssert(pan, "loading into a world that had entities (without reset) is refused")
	case 2: // reset world: accepted
		e := w.NewEntity()
		w.NewEntity()
		w.RemoveEntity(e)
		w.Reset()
		pan, _ := vCatch(func() { w.LoadEntities(&d) })
		vAssert(!pan, "loading into a reset world is accepted")
		vAssert(!w.Alive(a), "loaded world reports the dumped alive set")
	default: // locked world
		m := All()
		q := w.Query(&m)
		pan, msg := vCatch(func() { w.LoadEntities(&d) })
		vAssert(pan && msg == hLockMsg, "loading into a locked world is refused")
		q.Close()
	}
	vReach("end")
}

// HC17_Large: dumps with more entity slots than one 64-bit word of the
// receiving world's internal bit sets, into worlds of several capacity increments.
func HC17_Large() {
	n := [3]int{64, 65, 130}[vChoice("n", 3)]
	src := NewWorld(NewConfig().WithCapacityIncrement(16))
	NewBuilder(&src).NewBatch(n)
	var hs [140]Entity
	m := All()
	q := src.Query(&m)
	k := 0
	for q.Next() {
		hs[k] = q.Entity()
		k++
	}
	vAssert(k == n, "batch creation")
	src.RemoveEntity(hs[1])
	src.RemoveEntity(hs[n-2])
	d := src.DumpEntities()
	dst := NewWorld(NewConfig().WithCapacityIncrement([3]int{1, 7, 128}[vChoice("capinc", 3)]))
	if vChoice("reset", 2) == 1 {
		dst.NewEntity()
		dst.Reset()
	}
	dst.LoadEntities(&d)
	for i := 0; i < n; i++ {
		vAssert(dst.Alive(hs[i]) == src.Alive(hs[i]), "every handle gets the same Alive answer after loading")
	}
	// the same future in both worlds, touching the highest ids
	r1, r2 := ComponentID[hR1](&src), ComponentID[hR1](&dst)
	for _, w := range [2]*World{&src, &dst} {
		w.RemoveEntity(hs[n-1])
	}
	a, b := src.NewEntity(), dst.NewEntity()
	vAssert(a == b, "original and loaded worlds issue identical handles")
	c1 := NewBuilder(&src, r1).WithRelation(r1).New(hs[n-3])
	c2 := NewBuilder(&dst, r2).WithRelation(r2).New(hs[n-3])
	vAssert(c1 == c2, "original and loaded worlds issue identical handles")
	src.RemoveEntity(c1)
	dst.RemoveEntity(c2)
	src.RemoveEntity(hs[n-3]) // a relation target with a high id dies: its empty table is retired
	dst.RemoveEntity(hs[n-3])
	e1, e2 := src.DumpEntities(), dst.DumpEntities()
	dumpsEqual(&e1, &e2, true)
	vReach("end")
}

func init() { vRegister("HC17_JSON", HC17_JSON) }

// HC17_JSON: an entity handle survives MarshalJSON / UnmarshalJSON for every
// id and generation; the encoded form is the two-element array [id, generation].
func HC17_JSON() {
	e := Entity{id: eid(vU32("id")), gen: vU32("gen")}
	data, err := e.MarshalJSON()
	vAssert(err == nil, "MarshalJSON does not fail")
	var arr [2]uint32
	vAssert(json.Unmarshal(data, &arr) == nil, "the JSON form is a two-element array")
	vAssert(vAnd(arr[0] == uint32(e.id), arr[1] == e.gen), "the JSON form is [id, generation]")
	back := Entity{id: 77, gen: 78}
	vAssert(back.UnmarshalJSON(data) == nil, "UnmarshalJSON accepts what MarshalJSON produced")
	vAssert(vAnd(back.id == e.id, back.gen == e.gen), "entity handles survive a JSON round trip unchanged")
	vAssert(back == e, "round-tripped handle compares equal")
	// through encoding/json itself, by value and by pointer (what users do with structs, maps and slices of entities)
	byVal, err1 := json.Marshal(e)
	byPtr, err2 := json.Marshal(&e)
	vAssert(err1 == nil && err2 == nil, "json.Marshal of an entity does not fail")
	var r1, r2 Entity
	vAssert(json.Unmarshal(byVal, &r1) == nil && r1 == e, "an entity marshalled by value survives the JSON round trip")
	vAssert(json.Unmarshal(byPtr, &r2) == nil && r2 == e, "an entity marshalled through a pointer survives the JSON round trip")
	// a handle of a live world
	w := NewWorld()
	w.NewEntity()
	a := w.NewEntity()
	w.RemoveEntity(a)
	a2 := w.NewEntity()
	d2, _ := a2.MarshalJSON()
	var b2 Entity
	vAssert(b2.UnmarshalJSON(d2) == nil && w.Alive(b2) && !w.Alive(a) && b2 == a2, "a round-tripped handle addresses the same entity")
	vReach("end")
}
