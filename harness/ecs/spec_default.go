//go:build !tiny

package ecs

// Reference view of a Mask as a set of IDs (default build: 4 x 64 bits).

const hMaskBits = 256

func vMask(name string) Mask {
	return Mask{bits: [4]uint64{vU64(name + ".w0"), vU64(name + ".w1"), vU64(name + ".w2"), vU64(name + ".w3")}}
}

func hWord(m *Mask, k uint8) uint64 {
	return vIte64(k == 0, m.bits[0], vIte64(k == 1, m.bits[1], vIte64(k == 2, m.bits[2], m.bits[3])))
}

// hBit is the specification of membership: bit j of the 256-bit value.
func hBit(m *Mask, j uint8) bool {
	return (hWord(m, j>>6)>>(j&63))&1 == 1
}

func hIDInRange(j uint8) bool { return true }

// hSetBit ors bit id into m without branching on v.
func hSetBit(m *Mask, id uint8, v bool) { m.bits[id>>6] |= vB2U(v) << (id & 63) }
