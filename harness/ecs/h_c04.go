package ecs

// C04: masks are sets of component IDs; mask filters match per definition.
// Every lemma is stated against hBit (bit j of the mask value) for a fully
// symbolic mask and symbolic 8-bit ids.

func init() {
	vRegister("HC04_Get", HC04_Get)
	vRegister("HC04_Set", HC04_Set)
	vRegister("HC04_Not", HC04_Not)
	vRegister("HC04_AndOrXor", HC04_AndOrXor)
	vRegister("HC04_Contains", HC04_Contains)
	vRegister("HC04_ContainsAny", HC04_ContainsAny)
	vRegister("HC04_IsZeroReset", HC04_IsZeroReset)
	vRegister("HC04_TotalBitsSet", HC04_TotalBitsSet)
	vRegister("HC04_All", HC04_All)
	vRegister("HC04_MaskMatches", HC04_MaskMatches)
	vRegister("HC04_MaskFilter", HC04_MaskFilter)
	vRegister("HC04_Without", HC04_Without)
	vRegister("HC04_Exclusive", HC04_Exclusive)
	vRegister("HC04_Equality", HC04_Equality)
}

// VMask / VBit / VIDInRange give other packages' harnesses access to symbolic masks.
func VMask(name string) Mask      { return vMask("x" + name) }
func VBit(m *Mask, j uint8) bool  { return hBit(m, j) }
func VIDInRange(j uint8) bool     { return hIDInRange(j) }
func VMaskBits() int              { return hMaskBits }
func VID(j uint8) ID              { return ID{j} }

func hID(name string) uint8 {
	j := vU8(name)
	vAssume(hIDInRange(j))
	return j
}

func HC04_Get() {
	m := vMask("m")
	j := hID("j")
	vAssert(m.Get(ID{j}) == hBit(&m, j), "Get(id) is membership of id")
	vReach("end")
}

func HC04_Set() {
	m := vMask("m")
	i, j := hID("i"), hID("j")
	v := vBool("v")
	m2 := m
	m2.Set(ID{i}, v)
	want := vOr(vAnd(i == j, v), vAnd(i != j, hBit(&m, j)))
	vAssert(hBit(&m2, j) == want, "Set(i,v) changes exactly bit i")
	vReach("end")
}

func HC04_Not() {
	m := vMask("m")
	j := hID("j")
	n := m.Not()
	vAssert(hBit(&n, j) == !hBit(&m, j), "Not is complement")
	vReach("end")
}

func HC04_AndOrXor() {
	a, b := vMask("a"), vMask("b")
	j := hID("j")
	x := a.And(&b)
	vAssert(hBit(&x, j) == vAnd(hBit(&a, j), hBit(&b, j)), "And is intersection")
	y := a.Or(&b)
	vAssert(hBit(&y, j) == vOr(hBit(&a, j), hBit(&b, j)), "Or is union")
	z := a.Xor(&b)
	vAssert(hBit(&z, j) == (hBit(&a, j) != hBit(&b, j)), "Xor is symmetric difference")
	vReach("end")
}

func HC04_Contains() {
	a, b := vMask("a"), vMask("b")
	all := true
	for j := 0; j < hMaskBits; j++ {
		all = vAnd(all, vImplies(hBit(&b, uint8(j)), hBit(&a, uint8(j))))
	}
	vAssert(a.Contains(&b) == all, "Contains is superset")
	vReach("end")
}

func HC04_ContainsAny() {
	a, b := vMask("a"), vMask("b")
	any := false
	for j := 0; j < hMaskBits; j++ {
		any = vOr(any, vAnd(hBit(&b, uint8(j)), hBit(&a, uint8(j))))
	}
	vAssert(a.ContainsAny(&b) == any, "ContainsAny is non-empty intersection")
	vReach("end")
}

func HC04_IsZeroReset() {
	a := vMask("a")
	any := false
	for j := 0; j < hMaskBits; j++ {
		any = vOr(any, hBit(&a, uint8(j)))
	}
	vAssert(a.IsZero() == !any, "IsZero is emptiness")
	a.Reset()
	j := hID("j")
	vAssert(!hBit(&a, j), "Reset clears every bit")
	vAssert(a.IsZero(), "Reset makes the mask empty")
	vReach("end")
}

func HC04_TotalBitsSet() {
	a := vMask("a")
	var n uint64
	for j := 0; j < hMaskBits; j++ {
		n += vB2U(hBit(&a, uint8(j)))
	}
	vAssert(uint64(a.TotalBitsSet()) == n, "TotalBitsSet is cardinality")
	vReach("end")
}

func HC04_All() {
	n := vChoice("n", 5)
	var ids [4]uint8
	lst := make([]ID, 0, 4)
	for k := 0; k < n; k++ {
		ids[k] = hID("id")
		lst = append(lst, ID{ids[k]})
	}
	m := All(lst...)
	j := hID("j")
	want := false
	for k := 0; k < n; k++ {
		want = vOr(want, ids[k] == j)
	}
	vAssert(hBit(&m, j) == want, "All(ids...) is the set of its arguments")
	vReach("end")
}

func HC04_MaskMatches() {
	f, bits := vMask("f"), vMask("bits")
	all := true
	for j := 0; j < hMaskBits; j++ {
		all = vAnd(all, vImplies(hBit(&f, uint8(j)), hBit(&bits, uint8(j))))
	}
	vAssert(f.Matches(&bits) == all, "Mask.Matches: all included components present")
	vReach("end")
}

func HC04_MaskFilter() {
	f := MaskFilter{Include: vMask("inc"), Exclude: vMask("exc")}
	bits := vMask("bits")
	all, none := true, true
	for j := 0; j < hMaskBits; j++ {
		all = vAnd(all, vImplies(hBit(&f.Include, uint8(j)), hBit(&bits, uint8(j))))
		none = vAnd(none, !vAnd(hBit(&f.Exclude, uint8(j)), hBit(&bits, uint8(j))))
	}
	vAssert(f.Matches(&bits) == vAnd(all, none), "MaskFilter.Matches: all included, none excluded")
	vReach("end")
}

func HC04_Without() {
	b := vMask("b")
	n := vChoice("n", 4)
	var ids [3]uint8
	lst := make([]ID, 0, 3)
	for k := 0; k < n; k++ {
		ids[k] = hID("id")
		lst = append(lst, ID{ids[k]})
	}
	f := b.Without(lst...)
	j := hID("j")
	inEx := false
	for k := 0; k < n; k++ {
		inEx = vOr(inEx, ids[k] == j)
	}
	vAssert(hBit(&f.Include, j) == hBit(&b, j), "Without keeps the include mask")
	vAssert(hBit(&f.Exclude, j) == inEx, "Without excludes exactly the given ids")
	vReach("end")
}

func HC04_Exclusive() {
	b, bits := vMask("b"), vMask("bits")
	f := b.Exclusive()
	same := true
	for j := 0; j < hMaskBits; j++ {
		same = vAnd(same, hBit(&b, uint8(j)) == hBit(&bits, uint8(j)))
	}
	vAssert(f.Matches(&bits) == same, "Exclusive matches exactly the included set")
	vReach("end")
}

func HC04_Equality() {
	a, b := vMask("a"), vMask("b")
	same := true
	for j := 0; j < hMaskBits; j++ {
		same = vAnd(same, hBit(&a, uint8(j)) == hBit(&b, uint8(j)))
	}
	vAssert((a == b) == same, "mask equality is set equality")
	vReach("end")
}
