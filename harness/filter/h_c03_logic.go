package filter

import "github.com/mlange-42/arche/ecs"

// C03 (logic combinations at world level): queries through And/Or/XOr/Not/Any/
// NoneOf/AnyNot filters, plain and registered, visit exactly the entities whose
// component set satisfies the boolean definition.

func init() { vRegister("HC03_Logic", HC03_Logic) }

type lX struct{ V int64 }
type lY struct{ V int32 }
type lZ struct{}

func HC03_Logic() {
	w := ecs.NewWorld(ecs.NewConfig().WithCapacityIncrement(1 + vChoice("capinc", 2)))
	ids := [3]ecs.ID{ecs.ComponentID[lX](&w), ecs.ComponentID[lY](&w), ecs.ComponentID[lZ](&w)}
	// one or two entities for each of the 8 component subsets
	var ents [12]ecs.Entity
	var sets [12]uint8
	n := 0
	for s := 0; s < 8; s++ {
		reps := 1
		if s == 3 || s == 5 {
			reps = 2
		}
		for r := 0; r < reps; r++ {
			var l []ecs.ID
			for k := 0; k < 3; k++ {
				if s&(1<<k) != 0 {
					l = append(l, ids[k])
				}
			}
			ents[n], sets[n] = w.NewEntity(l...), uint8(s)
			n++
		}
	}
	// some removals so that tables have holes / are empty
	if vChoice("remove", 2) == 1 {
		k := vChoice("which", n)
		w.RemoveEntity(ents[k])
		sets[k] = 0xff // dead
	}
	has := func(s uint8, k int) bool { return s&(1<<k) != 0 }
	X, Y, Z := ecs.All(ids[0]), ecs.All(ids[1]), ecs.All(ids[2])
	XY := ecs.All(ids[0], ids[1])
	var f ecs.Filter
	var spec func(s uint8) bool
	switch vChoice("filter", 10) {
	case 0:
		f, spec = And(&X, Not(&Y)), func(s uint8) bool { return has(s, 0) && !has(s, 1) }
	case 1:
		f, spec = Or(&X, &Z), func(s uint8) bool { return has(s, 0) || has(s, 2) }
	case 2:
		f, spec = XOr(&X, &Y), func(s uint8) bool { return has(s, 0) != has(s, 1) }
	case 3:
		f, spec = Not(&XY), func(s uint8) bool { return !(has(s, 0) && has(s, 1)) }
	case 4:
		f, spec = Any(ids[0], ids[2]), func(s uint8) bool { return has(s, 0) || has(s, 2) }
	case 5:
		f, spec = NoneOf(ids[1], ids[2]), func(s uint8) bool { return !has(s, 1) && !has(s, 2) }
	case 6:
		f, spec = AnyNot(ids[0], ids[1]), func(s uint8) bool { return !(has(s, 0) && has(s, 1)) }
	case 7:
		f, spec = And(Or(&X, &Y), Not(&Z)), func(s uint8) bool { return (has(s, 0) || has(s, 1)) && !has(s, 2) }
	case 8:
		f, spec = XOr(And(&X, &Y), Any(ids[2])), func(s uint8) bool { return (has(s, 0) && has(s, 1)) != has(s, 2) }
	default:
		f, spec = Or(Not(Any(ids[0], ids[1])), And(&Z, AnyNot(ids[0]))), func(s uint8) bool { return !(has(s, 0) || has(s, 1)) || (has(s, 2) && !has(s, 0)) }
	}
	flt := f
	var cf ecs.CachedFilter
	if vChoice("registered", 2) == 1 {
		cf = w.Cache().Register(f)
		flt = &cf
		// a table created after registration
		ents[n], sets[n] = w.NewEntity(ids[0], ids[1], ids[2]), 7
		n++
		e := w.NewEntity(ids[1])
		w.Add(e, ids[2])
		ents[n], sets[n] = e, 6
		n++
	}
	q := w.Query(flt)
	cnt := q.Count()
	var seen [12]bool
	visited := 0
	for q.Next() {
		e := q.Entity()
		idx := -1
		for i := 0; i < n; i++ {
			if ents[i] == e {
				idx = i
			}
		}
		vAssert(idx >= 0 && sets[idx] != 0xff, "query visits only alive entities")
		if idx >= 0 {
			vAssert(!seen[idx], "query visits no entity twice")
			seen[idx] = true
			vAssert(spec(sets[idx]), "query through a logic filter visits only matching entities")
		}
		visited++
	}
	want := 0
	for i := 0; i < n; i++ {
		if sets[i] != 0xff && spec(sets[i]) {
			want++
			vAssert(seen[i], "query through a logic filter visits every matching entity")
		}
	}
	vAssert(visited == want && cnt == want, "Count and iteration agree with the boolean definition")
	vAssert(!w.IsLocked(), "exhausted query releases its lock")
	vReach("end")
}
