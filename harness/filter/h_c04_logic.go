package filter

import "github.com/mlange-42/arche/ecs"

// C04 (logic filters): every filter tree up to the nesting bound, with fully
// symbolic leaf masks, matches exactly per its boolean definition.

func init() {
	vRegister("HC04_Logic", HC04_Logic)
	vRegister("HC04_Leaves", HC04_Leaves)
	vRegister("HC04_LeafSemantics", HC04_LeafSemantics)
}

var hLeafN int

// hLeaf makes a leaf filter with a fully symbolic mask. Its specification is
// its own Matches result: the leaf semantics (Mask/ANY/NoneOF/AnyNOT/MaskFilter
// against the set definitions) are decided separately by HC04_LeafSemantics and
// the ecs-side lemmas; HC04_Logic decides the composition.
func hLeaf(kind int, bits *ecs.Mask) (ecs.Filter, bool) {
	hLeafN++
	name := "leaf" + string(rune('a'+hLeafN))
	m := ecs.VMask(name)
	var f ecs.Filter
	switch kind {
	case 0:
		// ecs.Mask implements Filter with a value receiver: both forms are in use
		if vChoice("byvalue", 2) == 1 {
			f = m
		} else {
			f = &m
		}
	case 1:
		f = ANY(m)
	case 2:
		f = NoneOF(m)
	case 3:
		f = AnyNOT(m)
	default:
		ex := ecs.VMask(name + "x")
		f = &ecs.MaskFilter{Include: m, Exclude: ex}
	}
	return f, f.Matches(bits)
}

func hSup(m, bits *ecs.Mask) bool {
	all := true
	for j := 0; j < ecs.VMaskBits(); j++ {
		all = vAnd(all, vImplies(ecs.VBit(m, uint8(j)), ecs.VBit(bits, uint8(j))))
	}
	return all
}

func hAny(m, bits *ecs.Mask) bool {
	any := false
	for j := 0; j < ecs.VMaskBits(); j++ {
		any = vOr(any, vAnd(ecs.VBit(m, uint8(j)), ecs.VBit(bits, uint8(j))))
	}
	return any
}

// HC04_LeafSemantics: ANY / NoneOF / AnyNOT against their set definitions.
func HC04_LeafSemantics() {
	m, bits := ecs.VMask("m"), ecs.VMask("bits")
	vAssert(ANY(m).Matches(&bits) == hAny(&m, &bits), "Any matches iff some listed component is present")
	vAssert(NoneOF(m).Matches(&bits) == !hAny(&m, &bits), "NoneOf matches iff no listed component is present")
	vAssert(AnyNOT(m).Matches(&bits) == !hSup(&m, &bits), "AnyNot matches iff some listed component is absent")
	vAssert(m.Matches(&bits) == hSup(&m, &bits), "All matches iff every listed component is present")
	vReach("end")
}

// hBuild picks a filter tree of at most the given depth; spine restricts the
// right operand of binary nodes to leaves.
func hBuild(depth int, leafKinds int, spine bool, bits *ecs.Mask) (ecs.Filter, bool) {
	n := leafKinds
	if depth > 0 {
		n += 4
	}
	k := vChoice("node", n)
	if k < leafKinds {
		return hLeaf(k, bits)
	}
	k -= leafKinds
	if k == 3 {
		f, s := hBuild(depth-1, leafKinds, spine, bits)
		return Not(f), !s
	}
	l, ls := hBuild(depth-1, leafKinds, spine, bits)
	rd := depth - 1
	if spine {
		rd = 0
	}
	r, rs := hBuild(rd, leafKinds, spine, bits)
	switch k {
	case 0:
		return And(l, r), vAnd(ls, rs)
	case 1:
		return Or(l, r), vOr(ls, rs)
	default:
		return XOr(l, r), ls != rs
	}
}

func HC04_Logic() {
	bits := ecs.VMask("bits")
	var f ecs.Filter
	var spec bool
	if vTier() == 0 {
		if vChoice("mode", 2) == 0 {
			f, spec = hBuild(1, 5, false, &bits) // all shapes of depth <= 1, all leaf kinds
		} else {
			f, spec = hBuild(2, 2, false, &bits) // all shapes of depth <= 2, leaf kinds Mask/ANY
		}
	} else {
		if vChoice("mode", 2) == 0 {
			f, spec = hBuild(2, 5, false, &bits) // all shapes of depth <= 2, all leaf kinds
		} else {
			f, spec = hBuild(3, 2, true, &bits) // depth 3 spines
		}
	}
	vAssert(f.Matches(&bits) == spec, "logic filter matches per its boolean definition")
	vReach("end")
}

// HC04_Leaves checks the constructors from ID lists.
func HC04_Leaves() {
	n := vChoice("n", 3)
	var ids [2]uint8
	lst := make([]ecs.ID, 0, 2)
	w := ecs.NewWorld()
	_ = w
	for k := 0; k < n; k++ {
		ids[k] = vU8("id")
		vAssume(ecs.VIDInRange(ids[k]))
		lst = append(lst, ecs.VID(ids[k]))
	}
	j := vU8("j")
	vAssume(ecs.VIDInRange(j))
	want := false
	for k := 0; k < n; k++ {
		want = vOr(want, ids[k] == j)
	}
	a := ecs.Mask(Any(lst...))
	b := ecs.Mask(NoneOf(lst...))
	c := ecs.Mask(AnyNot(lst...))
	d := All(lst...)
	vAssert(ecs.VBit(&a, j) == want, "Any(ids) holds exactly its ids")
	vAssert(ecs.VBit(&b, j) == want, "NoneOf(ids) holds exactly its ids")
	vAssert(ecs.VBit(&c, j) == want, "AnyNot(ids) holds exactly its ids")
	vAssert(ecs.VBit(&d, j) == want, "filter.All(ids) holds exactly its ids")
	vReach("end")
}
