package listener

import (
	"github.com/mlange-42/arche/ecs"
	"github.com/mlange-42/arche/ecs/event"
)

// C12(a): the listener-side copy of the rule equals the core one, and Dispatch
// delivers to each sub-listener exactly what it would receive alone.

func init() {
	vRegister("HC12_ListenerCopy", HC12_ListenerCopy)
	vRegister("HC12_Dispatch", HC12_Dispatch)
	vRegister("HC12_Callback", HC12_Callback)
}

func hOptMask(name string) *ecs.Mask {
	if vBool(name + ".nil") {
		return nil
	}
	m := ecs.VMask(name)
	return &m
}

func hOptID(name string) *ecs.ID {
	if vBool(name + ".nil") {
		return nil
	}
	j := vU8(name)
	vAssume(ecs.VIDInRange(j))
	id := ecs.VID(j)
	return &id
}

func HC12_ListenerCopy() {
	trigger := event.Subscription(vU8("trigger"))
	added, removed, subs := hOptMask("added"), hOptMask("removed"), hOptMask("subs")
	oldRel, newRel := hOptID("oldRel"), hOptID("newRel")
	a := subscribes(trigger, added, removed, subs, oldRel, newRel)
	b := ecs.VSubscribes(trigger, added, removed, subs, oldRel, newRel)
	vAssert(a == b, "listener.subscribes equals ecs.subscribes")
	vReach("end")
}

// hAccept is the world's call-site logic for a listener l and an event.
func hAccept(l ecs.Listener, e *ecs.EntityEvent) bool {
	trigger := l.Subscriptions() & e.EventTypes
	if trigger == 0 {
		return false
	}
	return ecs.VSubscribes(trigger, &e.Added, &e.Removed, l.Components(), e.OldRelation, e.NewRelation)
}

func hCallback(name string, got *bool) Callback {
	cb := Callback{
		callback: func(w *ecs.World, e ecs.EntityEvent) { *got = true },
		events:   event.Subscription(vU8(name + ".events")),
	}
	if vBool(name + ".restricted") {
		cb.hasComponents = true
		cb.components = ecs.VMask(name + ".comps")
	}
	return cb
}

func HC12_Dispatch() {
	evt := ecs.EntityEvent{
		Added: ecs.VMask("added"), Removed: ecs.VMask("removed"),
		OldRelation: hOptID("oldRel"), NewRelation: hOptID("newRel"),
		EventTypes: event.Subscription(vU8("types")),
	}
	var got1, got2, got3 bool
	cb1, cb2, cb3 := hCallback("l1", &got1), hCallback("l2", &got2), hCallback("l3", &got3)
	var d Dispatch
	switch vChoice("mode", 3) {
	case 0:
		d = NewDispatch(&cb1, &cb2, &cb3)
	case 1:
		d = NewDispatch(&cb1)
		d.AddListener(&cb2)
		d.AddListener(&cb3)
	default:
		d = NewDispatch()
		d.AddListener(&cb1)
		d.AddListener(&cb2)
		d.AddListener(&cb3)
	}
	a1, a2, a3 := hAccept(&cb1, &evt), hAccept(&cb2, &evt), hAccept(&cb3, &evt)
	aD := hAccept(&d, &evt)
	// whatever a sub-listener would receive alone reaches the Dispatch
	vAssert(vImplies(a1, aD), "event accepted by sub-listener 1 alone is delivered to the Dispatch")
	vAssert(vImplies(a2, aD), "event accepted by sub-listener 2 alone is delivered to the Dispatch")
	vAssert(vImplies(a3, aD), "event accepted by sub-listener 3 alone is delivered to the Dispatch")
	if aD {
		d.Notify(nil, evt)
	}
	vAssert(got1 == a1, "Dispatch delivers to sub-listener 1 exactly what it would receive alone")
	vAssert(got2 == a2, "Dispatch delivers to sub-listener 2 exactly what it would receive alone")
	vAssert(got3 == a3, "Dispatch delivers to sub-listener 3 exactly what it would receive alone")
	vReach("end")
}

func HC12_Callback() {
	n := vChoice("n", 3)
	var ids [2]uint8
	lst := make([]ecs.ID, 0, 2)
	for k := 0; k < n; k++ {
		ids[k] = vU8("id")
		vAssume(ecs.VIDInRange(ids[k]))
		lst = append(lst, ecs.VID(ids[k]))
	}
	ev := event.Subscription(vU8("events"))
	cb := NewCallback(func(w *ecs.World, e ecs.EntityEvent) {}, ev, lst...)
	vAssert(cb.Subscriptions() == ev, "Callback reports its subscriptions")
	if n == 0 {
		vAssert(cb.Components() == nil, "Callback without components is unrestricted")
	} else {
		c := cb.Components()
		vAssert(c != nil, "Callback with components is restricted")
		j := vU8("j")
		vAssume(ecs.VIDInRange(j))
		want := false
		for k := 0; k < n; k++ {
			want = vOr(want, ids[k] == j)
		}
		vAssert(ecs.VBit(c, j) == want, "Callback restriction holds exactly the given ids")
	}
	vReach("end")
}
