package listener

import (
	"github.com/mlange-42/arche/ecs"
	"github.com/mlange-42/arche/ecs/event"
)

// C12(a): the listener-side copy of the rule equals the core one, and Dispatch
// delivers to each sub-listener exactly what it would receive alone.

func init() {
	vRegister("HC12_ListenerCopy", HC12_ListenerCopy)
	vRegister("HC12_Dispatch", HC12_Dispatch)
	vRegister("HC12_Callback", HC12_Callback)
}

func hOptMask(name string) *ecs.Mask {
	if vBool(name + ".nil") {
		return nil
	}
	m := ecs.VMask(name)
	return &m
}

func hOptID(name string) *ecs.ID {
	if vBool(name + ".nil") {
		return nil
	}
	j := vU8(name)
	vAssume(ecs.VIDInRange(j))
	id := ecs.VID(j)
	return &id
}

func HC12_ListenerCopy() {
	trigger := event.Subscription(vU8("trigger"))
	added, removed, subs := hOptMask("added"), hOptMask("removed"), hOptMask("subs")
	oldRel, newRel := hOptID("oldRel"), hOptID("newRel")
	a := subscribes(trigger, added, removed, subs, oldRel, newRel)
	b := ecs.VSubscribes(trigger, added, removed, subs, oldRel, newRel)
	vAssert(a == b, "listener.subscribes equals ecs.subscribes")
	vReach("end")
}

// hAccept is the world's call-site logic for a listener l and an event.
func hAccept(l ecs.Listener, e *ecs.EntityEvent) bool {
	trigger := l.Subscriptions() & e.EventTypes
	if trigger == 0 {
		return false
	}
	return ecs.VSubscribes(trigger, &e.Added, &e.Removed, l.Components(), e.OldRelation, e.NewRelation)
}

func hCallback(name string, got *bool) Callback {
	cb := Callback{
		callback: func(w *ecs.World, e ecs.EntityEvent) { *got = true },
		events:   event.Subscription(vU8(name + ".events")),
	}
	if vBool(name + ".restricted") {
		cb.hasComponents = true
		cb.components = ecs.VMask(name + ".comps")
	}
	return cb
}

func HC12_Dispatch() {
	evt := ecs.EntityEvent{
		Added: ecs.VMask("added"), Removed: ecs.VMask("removed"),
		OldRelation: hOptID("oldRel"), NewRelation: hOptID("newRel"),
		EventTypes: event.Subscription(vU8("types")),
	}
	var got1, got2, got3 bool
	cb1, cb2, cb3 := hCallback("l1", &got1), hCallback("l2", &got2), hCallback("l3", &got3)
	var d Dispatch
	switch vChoice("mode", 3) {
	case 0:
		d = NewDispatch(&cb1, &cb2, &cb3)
	case 1:
		d = NewDispatch(&cb1)
		d.AddListener(&cb2)
		d.AddListener(&cb3)
	default:
		d = NewDispatch()
		d.AddListener(&cb1)
		d.AddListener(&cb2)
		d.AddListener(&cb3)
	}
	a1, a2, a3 := hAccept(&cb1, &evt), hAccept(&cb2, &evt), hAccept(&cb3, &evt)
	aD := hAccept(&d, &evt)
	// whatever a sub-listener would receive alone reaches the Dispatch
	vAssert(vImplies(a1, aD), "event accepted by sub-listener 1 alone is delivered to the Dispatch")
	vAssert(vImplies(a2, aD), "event accepted by sub-listener 2 alone is delivered to the Dispatch")
	vAssert(vImplies(a3, aD), "event accepted by sub-listener 3 alone is delivered to the Dispatch")
	if aD {
		d.Notify(nil, evt)
	}
	vAssert(got1 == a1, "Dispatch delivers to sub-listener 1 exactly what it would receive alone")
	vAssert(got2 == a2, "Dispatch delivers to sub-listener 2 exactly what it would receive alone")
	vAssert(got3 == a3, "Dispatch delivers to sub-listener 3 exactly what it would receive alone")
	vReach("end")
}

func HC12_Callback() {
	n := vChoice("n", 3)
	var ids [2]uint8
	lst := make([]ecs.ID, 0, 2)
	for k := 0; k < n; k++ {
		ids[k] = vU8("id")
		vAssume(ecs.VIDInRange(ids[k]))
		lst = append(lst, ecs.VID(ids[k]))
	}
	ev := event.Subscription(vU8("events"))
	cb := NewCallback(func(w *ecs.World, e ecs.EntityEvent) {}, ev, lst...)
	vAssert(cb.Subscriptions() == ev, "Callback reports its subscriptions")
	if n == 0 {
		vAssert(cb.Components() == nil, "Callback without components is unrestricted")
	} else {
		c := cb.Components()
		vAssert(c != nil, "Callback with components is restricted")
		j := vU8("j")
		vAssume(ecs.VIDInRange(j))
		want := false
		for k := 0; k < n; k++ {
			want = vOr(want, ids[k] == j)
		}
		vAssert(ecs.VBit(c, j) == want, "Callback restriction holds exactly the given ids")
	}
	vReach("end")
}

func init() { vRegister("HC12_DispatchWorld", HC12_DispatchWorld) }

type hLA struct{ V int64 }
type hLB struct{ V int32 }
type hLR struct {
	ecs.Relation
	V int32
}

const hLogN = 16

type hLog struct {
	n     int
	types [hLogN]event.Subscription
	ent   [hLogN]ecs.Entity
	added [hLogN]ecs.Mask
}

func (l *hLog) rec(e *ecs.EntityEvent) {
	vBound(l.n < hLogN, "events<=16")
	l.types[l.n], l.ent[l.n], l.added[l.n] = e.EventTypes, e.Entity, e.Added
	l.n++
}

// HC12_DispatchWorld: a Dispatch installed in a world, with sub-listeners added
// before and after it was installed, delivers to each of them exactly the events
// the same listener receives when it is installed alone in a twin world driven
// by the same operations. Subscriptions are fully symbolic.
func HC12_DispatchWorld() {
	w1, w2, w3 := ecs.NewWorld(), ecs.NewWorld(), ecs.NewWorld()
	var ids [3][3]ecs.ID
	for k, w := range [3]*ecs.World{&w1, &w2, &w3} {
		ids[k] = [3]ecs.ID{ecs.ComponentID[hLA](w), ecs.ComponentID[hLB](w), ecs.ComponentID[hLR](w)}
	}
	s1 := event.Subscription(vU8("s1")) & event.All
	s2 := event.Subscription(vU8("s2")) & event.All
	var r1, r2 []ecs.ID
	switch vChoice("restrict1", 3) {
	case 1:
		r1 = []ecs.ID{ids[0][0]}
	case 2:
		r1 = []ecs.ID{ids[0][1], ids[0][2]}
	}
	if vChoice("restrict2", 2) == 1 {
		r2 = []ecs.ID{ids[0][2]}
	}
	var viaD1, viaD2, alone1, alone2 hLog
	d1 := NewCallback(func(_ *ecs.World, e ecs.EntityEvent) { viaD1.rec(&e) }, s1, r1...)
	d2 := NewCallback(func(_ *ecs.World, e ecs.EntityEvent) { viaD2.rec(&e) }, s2, r2...)
	a1 := NewCallback(func(_ *ecs.World, e ecs.EntityEvent) { alone1.rec(&e) }, s1, r1...)
	a2 := NewCallback(func(_ *ecs.World, e ecs.EntityEvent) { alone2.rec(&e) }, s2, r2...)
	// world 1: Dispatch; world 2 / 3: the listeners alone
	var d Dispatch
	if vChoice("firstBefore", 2) == 1 {
		d = NewDispatch(&d1)
		w1.SetListener(&d)
	} else {
		d = NewDispatch()
		w1.SetListener(&d)
		d.AddListener(&d1)
	}
	w2.SetListener(&a1)
	drive := func(phase int) {
		for k, w := range [3]*ecs.World{&w1, &w2, &w3} {
			A, B, R := ids[k][0], ids[k][1], ids[k][2]
			if phase == 0 {
				w.NewEntity()
				e := w.NewEntity(A)
				w.Add(e, B)
			} else {
				p := w.NewEntity()
				e := w.NewEntity(A, B)
				w.Exchange(e, []ecs.ID{R}, []ecs.ID{A})
				w.Relations().Set(e, R, p)
				w.Remove(e, B)
				w.RemoveEntity(e)
				ecs.NewBuilder(w, R).WithRelation(R).NewBatch(2, p)
			}
		}
	}
	drive(0)
	// the second sub-listener joins while the Dispatch is installed
	d.AddListener(&d2)
	w3.SetListener(&a2)
	n1 := alone1.n
	drive(1)
	same := func(x, y *hLog, from int) bool {
		if x.n != y.n {
			return false
		}
		ok := true
		for i := 0; i < hLogN; i++ {
			if i >= from && i < x.n {
				ok = vAnd(ok, vAnd(x.types[i] == y.types[i], vAnd(x.ent[i] == y.ent[i], x.added[i] == y.added[i])))
			}
		}
		return ok
	}
	_ = n1
	vAssert(same(&viaD1, &alone1, 0), "a Dispatch installed in a world delivers to its first sub-listener exactly what it receives alone")
	vAssert(same(&viaD2, &alone2, 0), "a sub-listener added to an installed Dispatch receives exactly what it would receive alone from then on")
	vReach("end")
}
