#!/bin/bash
# usage: tools/seed_matrix_par.sh [nshards]  -- seed matrix on n scratch worktrees in parallel (default 2), merged into seeded/RESULTS.md
N=${1:-2}
D=$(cd "$(dirname "$0")/.." && pwd)
for i in $(seq 0 $((N-1))); do
  wt=/tmp/wtm$i
  [ -d $wt ] || git -C /repo worktree add -q --detach $wt $(git -C /repo rev-parse HEAD)
  SHARD=$i NSHARD=$N SEED_WT=$wt $D/tools/seed_matrix.sh &
done
wait
{ echo "| seed | check | exit | first violation |"; echo "|---|---|---|---|"; cat $D/seeded/RESULTS.md.part* | grep -v "^| seed \|^|---" | sort; } > $D/seeded/RESULTS.md
rm -f $D/seeded/RESULTS.md.part*
for i in $(seq 0 $((N-1))); do git -C /repo worktree remove --force /tmp/wtm$i; done
grep -c "| 1 |" $D/seeded/RESULTS.md; grep -v "| 1 |" $D/seeded/RESULTS.md | tail -n +3
