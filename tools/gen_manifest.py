#!/usr/bin/env python3
"""Regenerates /verif/MANIFEST.json from the table below (claimed checks) and
marks every other property not_applicable with its reason."""
import json
props=[json.loads(l)['id'] for l in open('/verif/properties.jsonl')]
claimed = {
 "C04": dict(cat="proof",
   text="Every Mask operation and mask-filter constructor of the real code (both mask-width builds) is symbolically executed from go/ssa with fully symbolic 256/64-bit masks and symbolic 8-bit ids, and z3 decides each set-theoretic lemma for all inputs at once (unsat of the negation); logic filters are decided for every tree shape up to the stated nesting bound. Complete over the finite input domain except for the stated arity/nesting bounds.",
   note="Trusted: go/ssa lowering, the gosx interpreter (validated against native runs by conformance traces on every run), z3. math/bits.OnesCount64 is modelled by its definition (sum of bits). Bounds: All/Without with <=4/3 ids, logic nesting <=3.",
   tech="symbolic execution of go/ssa + SMT (bit-vector) validity queries, z3",
   ref="5 C04"),
}
na_reason = {}
default_na="check not built yet in this round (solver-based harness pending)"
checks=[]
for p in props:
    if p in claimed:
        c=claimed[p]
        checks.append({"property_id":p,"quick_cmd":f"./check {p} quick","thorough_cmd":f"./check {p} thorough",
          "evidence_file":f"/verif/evidence/{p}.json","replay_cmd_template":"./check --replay {path}","engine":"gosx",
          "level_claimed":{"category":c["cat"],"text":c["text"],"design_ref":c["ref"]},"level_note":c["note"],"technique":c["tech"]})
m={"version":1,
 "setup_cmd":"cd /verif/engine && GOFLAGS=-mod=mod GOPROXY=off GOSUMDB=off GOTOOLCHAIN=local GOWORK=off go build -o /verif/bin/gosx ./cmd/gosx",
 "hooks":{"guard":"verif","enable":"none needed: harnesses are injected with go/packages Overlay (engine) and go test -overlay (native replay); no hook code lives in /repo","baseline_off_cmd":"cd /repo && go test -vet=off -count=1 -timeout 25m ./...","source_commits":[],"add_only":True},
 "engines":[{"name":"gosx","path":"/verif/engine","serves_properties":props,"kind_free_text":"forking symbolic interpreter over go/ssa of /repo's working tree (byte-addressed typed memory, reflect/unsafe intrinsics); z3 decides branch feasibility and every assertion; counterexamples are replayed natively with go test -overlay before being reported"}],
 "checks":checks,
 "not_applicable":[{"property_id":p,"reason":na_reason.get(p,default_na)} for p in props if p not in claimed]}
json.dump(m,open('/verif/MANIFEST.json','w'),indent=1)
print("claimed:",sorted(claimed))
