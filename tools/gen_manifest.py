#!/usr/bin/env python3
"""Regenerates /verif/MANIFEST.json from the table below (claimed checks) and
marks every other property not_applicable with its reason."""
import json
props=[json.loads(l)['id'] for l in open('/verif/properties.jsonl')]
claimed = {
 "C04": dict(cat="proof",
   text="Every Mask operation and mask-filter constructor of the real code (both mask-width builds) is symbolically executed from go/ssa with fully symbolic 256/64-bit masks and symbolic 8-bit ids, and z3 decides each set-theoretic lemma for all inputs at once (unsat of the negation); logic filters are decided for every tree shape up to the stated nesting bound. Complete over the finite input domain except for the stated arity/nesting bounds.",
   note="Trusted: go/ssa lowering, the gosx interpreter (validated against native runs by conformance traces on every run), z3. math/bits.OnesCount64 is modelled by its definition (sum of bits). Bounds: All/Without with <=4/3 ids, logic nesting <=3.",
   tech="symbolic execution of go/ssa + SMT (bit-vector) validity queries, z3",
   ref="5 C04"),
}
WORLD_NOTE="Bounded: every feasible path of the harness inside the stated bounds (evidence.coverage.bounds) is explored by forking symbolic execution of the real code; structural choices (which entity/ids/target/op) are enumerated by the solver's case split, payload words / counts / indices stay symbolic. Trusted: go/ssa lowering, gosx interpreter + memory model (validated against native runs by conformance traces on every run), reflect/unsafe/fmt intrinsics, z3. Nothing is claimed outside the bounds."
claimed["C01"]=dict(cat="model_checking",
   text="Symbolic execution of the real create/add/remove/exchange/assign/set/relation code from scripted prefixes plus one (thorough: two) symbolic operation(s) with every legal argument choice; after each step a reference model of the documentation is compared with every public observable (Has/Mask/Ids/Get/payload words/targets/queries) for all payload values at once, and an in-package structural invariant is asserted. Bounded model checking; counterexamples are replayed natively.",
   note=WORLD_NOTE, tech="bounded symbolic execution of go/ssa with SMT-decided path conditions and assertions (z3), reference-model oracle", ref="5 C01")
claimed["C12"]=dict(cat="model_checking",
   text="(a) ecs.subscribes, the listener-side copy, the subscription bit assembly and event.Subscription are decided for all inputs (symbolic trigger, 256/64-bit masks, nil-ness, relation ids) against the documented rule; Dispatch is decided for three sub-listeners with fully symbolic subscriptions/restrictions and one fully symbolic event: each sub-listener receives exactly what it would receive alone, and the union restriction never drops such an event.",
   note="Trusted: go/ssa lowering, gosx interpreter (conformance-validated), z3. Dispatch bound: 3 sub-listeners, 3 construction orders. Call-site trigger arguments at world level are covered by the C11 harnesses' event oracle.",
   tech="symbolic execution of go/ssa + SMT validity queries (z3)", ref="5 C12")
def world(pid, text, ref):
    claimed[pid]=dict(cat="model_checking", text=text, note=WORLD_NOTE, tech="bounded symbolic execution of go/ssa with SMT-decided path conditions and assertions (z3), reference-model / differential oracle, native replay", ref=ref)
world("C02","(a) one-step lemmas: entityPool.Get/Recycle (and the filter-id intPool) are executed symbolically from an arbitrary well-formed pool (every free-list shape up to 6 slots, fully symbolic 32-bit generations, a symbolic earlier-issued ghost handle) and the solver decides freshness, liveness, monotonic death, alive count and preservation of well-formedness for all values; (b) world level: prefixes with recycled ids x symbolic single/batch creations (symbolic count) and removals (single, by filter, Reset) with model + invariant after each step. The 2^32 generation wrap is reported as a known finding by a separate unbounded lemma.","5 C02")
world("C03","Every filter kind, plain and registered, on every world reached by the prefixes (+1 symbolic operation in thorough): full iteration vs the model (each matching alive entity once, nothing else, accessors agree with the world), Count, EntityAt(i) with a fully symbolic 64-bit index and j x Next followed by Step(s) with a fully symbolic 64-bit step decided against the iteration order; the queries returned by batch Q-variants are decided the same way.","5 C03")
world("C05","Every target-taking API (creation with target, Relations.Set/Exchange, Builder.Add ids/values, NewBatch(Q), batch SetRelation, ExchangeBatch(Q)) is driven from relation-heavy prefixes with the target ranging over zero / alive / dead / dead-with-re-issued-id / self; legality (must panic vs must succeed) and the resulting target are decided against the documented rules, together with relation calls naming a wrong component (every id incl. 0) and relation swap/removal through plain Exchange; observables incl. relation-filter queries for every target are compared with the model.","5 C05")
world("C06","Prefixes with dying targets (non-empty table, retired table, re-issued id, self-target, empty-but-active child table, Reset over populated relation tables) x symbolic removal / re-creation / retargeting operations; decided: no panic, children keep components, payloads and the dead handle, re-used tables start empty and zeroed (structural invariant incl. free-list and target-map consistency after every step, relation queries for every target).","5 C06")
world("C07","The registered filter and the original filter are compared on the same world (same entities, same Count) for 9 filter kinds registered before any table exists or after each of 11 prefixes, across one further operation incl. Reset/re-issue and batch operations through the registered filter (model as oracle); cache clauses of the structural invariant (list = freshly computed selection, index map current) after every step; Unregister semantics on three registrations.","5 C07")
world("C08","Each batch operation and its Q variant (Batch.Add/Remove/Exchange, Relations.ExchangeBatch, Batch.SetRelation/Relations.SetBatch, Batch.RemoveEntities, Builder.NewBatch with target/values/count) is executed symbolically on every prefix through every filter kind with every argument pair legal for all matching entities; oracle: the documented single-entity effect applied to every entity matching at call time (the same model that C01 validates against the single-entity operations), returned count, and the Q query's entities/components/targets.","5 C08")
na_reason = {}
default_na="check not built yet in this round (solver-based harness pending)"
checks=[]
for p in props:
    if p in claimed:
        c=claimed[p]
        checks.append({"property_id":p,"quick_cmd":f"./check {p} quick","thorough_cmd":f"./check {p} thorough",
          "evidence_file":f"/verif/evidence/{p}.json","replay_cmd_template":"./check --replay {path}","engine":"gosx",
          "level_claimed":{"category":c["cat"],"text":c["text"],"design_ref":c["ref"]},"level_note":c["note"],"technique":c["tech"]})
m={"version":1,
 "setup_cmd":"cd /verif/engine && GOFLAGS=-mod=mod GOPROXY=off GOSUMDB=off GOTOOLCHAIN=local GOWORK=off go build -o /verif/bin/gosx ./cmd/gosx",
 "hooks":{"guard":"verif","enable":"none needed: harnesses are injected with go/packages Overlay (engine) and go test -overlay (native replay); no hook code lives in /repo","baseline_off_cmd":"cd /repo && go test -vet=off -count=1 -timeout 25m ./...","source_commits":[],"add_only":True},
 "engines":[{"name":"gosx","path":"/verif/engine","serves_properties":props,"kind_free_text":"forking symbolic interpreter over go/ssa of /repo's working tree (byte-addressed typed memory, reflect/unsafe intrinsics); z3 decides branch feasibility and every assertion; counterexamples are replayed natively with go test -overlay before being reported"}],
 "checks":checks,
 "not_applicable":[{"property_id":p,"reason":na_reason.get(p,default_na)} for p in props if p not in claimed]}
json.dump(m,open('/verif/MANIFEST.json','w'),indent=1)
print("claimed:",sorted(claimed))
