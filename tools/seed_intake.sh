#!/bin/bash
# usage: tools/seed_intake.sh <ID>   -- confirm agent-produced seeds in /tmp/seed-<ID>/_seed and store them under /verif/seeded
ID=$1; ROUND=$2; SRC=/tmp/seed-$ID/_seed; WT=/tmp/wt1
SEED_FLAGS_BASE="$SEED_FLAGS"
export GOFLAGS= GOPROXY=off
for n in ${SEED_ONLY:-1 2 3 4 5}; do
  [ -f $SRC/patch$n.diff ] || continue
  git -C $WT checkout -q -- . ; git -C $WT clean -fdq
  demo=$SRC/demo${n}_test.go
  SEED_FLAGS="$SEED_FLAGS_BASE"; head -5 $demo | grep -q "TAGS: tiny" && SEED_FLAGS="$SEED_FLAGS_BASE -tags tiny"; head -5 $demo | grep -q "FLAGS: -race" && SEED_FLAGS="$SEED_FLAGS -race"; export SEED_FLAGS
  dir=$(grep -o -m1 -E '\b(ecs|generic|filter|listener)/' $demo | head -1); dir=${dir:-ecs/}
  tname=$(grep -o -m1 -E 'func Test[A-Za-z0-9_]+' $demo | sed 's/func //')
  # without the change: demo passes
  cp $demo $WT/$dir/zz_seed_demo_test.go
  (cd $WT && go test $SEED_FLAGS -vet=off -count=1 -run "^$tname\$" ./$dir >/tmp/seed_clean.log 2>&1); clean=$?
  rm -f $WT/$dir/zz_seed_demo_test.go
  # with the change: builds, suite passes, demo fails
  if ! git -C $WT apply $SRC/patch$n.diff; then echo "$ID-$n: patch does not apply"; continue; fi
  (cd $WT && go build ./... >/tmp/seed_build.log 2>&1); build=$?
  (cd $WT && go test -vet=off -count=1 ./... >/tmp/seed_suite.log 2>&1); suite=$?
  cp $demo $WT/$dir/zz_seed_demo_test.go
  (cd $WT && go test $SEED_FLAGS -vet=off -count=1 -run "^$tname\$" ./$dir >/tmp/seed_mut.log 2>&1); mut=$?
  rm -f $WT/$dir/zz_seed_demo_test.go
  git -C $WT checkout -q -- .
  echo "$ID-$n: demo_clean_exit=$clean build=$build suite=$suite demo_mutated_exit=$mut ($tname in $dir)"
  if [ $clean -eq 0 ] && [ $build -eq 0 ] && [ $suite -eq 0 ] && [ $mut -ne 0 ]; then
    PROP=$(python3 -c "import json,sys; print(json.load(open(sys.argv[1])).get('property',sys.argv[2]))" $SRC/meta$n.json $ID 2>/dev/null || echo $ID)
    if [ -n "$ROUND" ]; then d=/verif/seeded/$PROP-$ROUND$ID$n; else d=/verif/seeded/$ID-$n; fi; mkdir -p $d
    cp $SRC/patch$n.diff $d/patch.diff; cp $demo $d/demo_test.go
    python3 - "$SRC/meta$n.json" "$d/meta.json" "${PROP:-$ID}" "$dir" "$tname" <<'PY'
import json,sys
src,dst,pid,dir_,t=sys.argv[1:]
try: m=json.load(open(src))
except Exception as e: m={"what":"(agent meta unreadable)"}
out={"property":pid,"breaks":m.get("what"),"needs":m.get("needs"),"files":m.get("files"),
 "demo":{"copy_to":dir_,"test":t,"cmd":f"cp demo_test.go <tree>/{dir_}zz_seed_demo_test.go && cd <tree> && go test {__import__('os').environ.get('SEED_FLAGS','')} -vet=off -count=1 -run '^{t}$' ./{dir_}"},
 "confirmed_by_me":{"scratch_worktree":"/tmp/wt1 (removed afterwards)","clean_tree_demo":"pass","with_patch":{"go build ./...":"ok","go test -vet=off -count=1 ./... (existing suite)":"pass","demo":"FAIL"}},
 "agent_report":m.get("verified"),"detected_by":"(filled in below)"}
json.dump(out,open(dst,"w"),indent=1)
PY
    echo "  stored $d"
  else
    echo "  NOT stored"; tail -5 /tmp/seed_suite.log
  fi
done
