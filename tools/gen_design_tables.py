#!/usr/bin/env python3
"""Rewrites the generated blocks of DESIGN.md (between <!-- GEN:x --> markers)
from engine/cmd/gosx/props.go, known_findings.json and seeded/."""
import re,json,glob,os
D='/verif'
s=open(f'{D}/DESIGN.md').read()
props=open(f'{D}/engine/cmd/gosx/props.go').read()
blocks={}
# bounds
out=[]
for m in re.finditer(r'ID:\s*"(C\d+)".*?Bounds:\s*"((?:[^"\\]|\\.)*)",\s*\n\s*Outside:\s*"((?:[^"\\]|\\.)*)"',props,re.S):
    out.append(f'* **{m.group(1)}** - *bounds:* {m.group(2)}. *Outside the claim:* {m.group(3)}.')
blocks['BOUNDS']='\n'.join(sorted(out))
# findings
kf=json.load(open(f'{D}/known_findings.json'))['findings']
rows=['| property | status | commit | what |','|---|---|---|---|']
for f in kf:
    what=f['what']
    what=re.sub(r'^fixed: property=C\d+ [0-9a-f]+ ','',what)
    rows.append(f"| {f['property']} | {f['status']} | {f.get('commit','-')} | {what} |")
blocks['FINDINGS']='\n'.join(rows)
# seeds
rows=['| seed | property | what the change breaks / what it needs | caught by |','|---|---|---|---|']
res={}
rp=f'{D}/seeded/RESULTS.md'
if os.path.exists(rp):
    for l in open(rp):
        c=[x.strip() for x in l.strip().strip('|').split('|')]
        if len(c)>=4 and re.match(r'C\d+-\d+',c[0]):
            res.setdefault(c[0],[]).append((c[1],c[2],c[3]))
for d in sorted(glob.glob(f'{D}/seeded/C*-*/')):
    sid=os.path.basename(d.rstrip('/'))
    m=json.load(open(d+'meta.json'))
    what=(m.get('breaks') or '')[:260].replace('\n',' ').replace('|','/')
    needs=(m.get('needs') or '')[:200].replace('\n',' ').replace('|','/')
    caught=[]
    for (chk,rc,v) in res.get(sid,[]):
        lab=re.search(r'harness=(\S+).*?label="([^"]*)"',v)
        if rc=='1':
            caught.append(f"`./check {chk} quick` ({lab.group(1)}: {lab.group(2)[:70]})" if lab else f"`./check {chk} quick`")
        else:
            caught.append(f"NOT by {chk} (exit {rc}) {v[:80]}")
    extra=m.get('note','')
    rows.append(f"| {sid} | {m.get('property')} | {what} **Needs:** {needs} | {'; '.join(caught) or 'see meta.json'} {extra} |")
blocks['SEEDS']='\n'.join(rows)
for k,v in blocks.items():
    a,b=f'<!-- GEN:{k} -->',f'<!-- /GEN:{k} -->'
    if a in s:
        i=s.index(a)+len(a); j=s.index(b)
        s=s[:i]+'\n'+v+'\n'+s[j:]
open(f'{D}/DESIGN.md','w').write(s)
print('regenerated',list(blocks))
