#!/usr/bin/env python3
"""Records one `tools/seed_run.sh` result line for a seed: appends it to seeded/intake_runs.json, adds a row to
seeded/RESULTS.md and fills detected_by in the seed's meta.json.
usage: seed_record.py <seed dir name> <check ID> <tier> <exit code> <first violation text>"""
import json, os, sys
D = os.path.dirname(os.path.dirname(os.path.abspath(__file__)))
seed, chk, tier, rc, v = sys.argv[1], sys.argv[2], sys.argv[3], int(sys.argv[4]), sys.argv[5]
p = os.path.join(D, 'seeded', 'intake_runs.json')
runs = json.load(open(p))
order = 1 + max((r[0] for rs in runs.values() for r in rs), default=0)
runs.setdefault(seed, []).append([order, chk, tier, rc, v])
json.dump(runs, open(p, 'w'), indent=0)
if rc == 1:
    with open(os.path.join(D, 'seeded', 'RESULTS.md'), 'a') as f:
        f.write(f"| {seed} | {chk} | 1 | {v.replace('|', '/')[:160]} | run when the seed was taken in ({tier} tier) |\n")
    mp = os.path.join(D, 'seeded', seed, 'meta.json')
    m = json.load(open(mp))
    det = m.get('detected_by')
    if not isinstance(det, list):
        det = []
    line = f"./check {chk} {tier} (exit 1, VIOLATION line, natively replayed)"
    if line not in det:
        det.append(line)
    m['detected_by'] = det
    json.dump(m, open(mp, 'w'), indent=1)
print(f"recorded {seed} {chk} {tier} exit={rc}")
