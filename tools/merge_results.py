#!/usr/bin/env python3
"""Merges the rows of the (possibly partial) final seed matrix with the recorded runs made when each seed was
taken in (seeded/intake_runs.json: every `tools/seed_run.sh` result line of the sessions) into seeded/RESULTS.md
and fills detected_by in each meta.json.  usage: merge_results.py [matrix-rows-file ...]"""
import json, os, sys, re
D = os.path.dirname(os.path.dirname(os.path.abspath(__file__)))
runs = json.load(open(os.path.join(D, 'seeded', 'intake_runs.json')))
matrix = {}
for f in sys.argv[1:]:
    for line in open(f):
        c = [x.strip() for x in line.strip().strip('|').split('|')]
        if len(c) >= 4 and re.match(r'^C\d+-', c[0]):
            matrix.setdefault(c[0], []).append((c[1], c[2], c[3]))
seeds = sorted(d for d in os.listdir(os.path.join(D, 'seeded')) if os.path.isdir(os.path.join(D, 'seeded', d)))
out = ["| seed | check | exit | first violation | source |", "|---|---|---|---|---|"]
nm = ni = 0
for s in seeds:
    det = []
    if s in matrix:
        for chk, rc, v in matrix[s]:
            out.append(f"| {s} | {chk} | {rc} | {v} | final matrix (quick tier, fail-fast) |")
            if rc == '1':
                det.append(chk)
        nm += 1
    else:
        rs = [r for r in runs.get(s, []) if r[3] == 1]
        if rs:
            # the latest run per check that detected it
            last = {}
            for o, chk, tier, rc, v in rs:
                last[chk] = (o, tier, v)
            for chk, (o, tier, v) in sorted(last.items()):
                out.append(f"| {s} | {chk} | 1 | {v.replace('|', '/')[:160]} | run when the seed was taken in ({tier} tier) |")
                det.append(chk)
            ni += 1
        else:
            out.append(f"| {s} | - | - | no detecting run recorded (see notes in DESIGN 6b) | - |")
    mp = os.path.join(D, 'seeded', s, 'meta.json')
    m = json.load(open(mp))
    m['detected_by'] = [f"./check {c} quick (exit 1, VIOLATION line, natively replayed)" for c in sorted(set(det))] or "not detected on the current tree (see DESIGN 6b)"
    json.dump(m, open(mp, 'w'), indent=1)
open(os.path.join(D, 'seeded', 'RESULTS.md'), 'w').write("\n".join(out) + "\n")
print(f"{len(seeds)} seeds: {nm} from the final matrix, {ni} from intake runs")
