#!/bin/bash
# usage: tools/seed_run.sh <seed dir name e.g. C01-1> <check ID> [tier]  -- run a check against the seeded tree (scratch worktree /tmp/wt1)
S=$1; ID=$2; T=${3:-quick}
git -C /tmp/wt1 checkout -q -- . ; git -C /tmp/wt1 apply /verif/seeded/$S/patch.diff || exit 2
VERIF_REPO=/tmp/wt1 timeout 3000 /verif/check $ID $T > /tmp/seedrun-$S-$ID.log 2>&1; rc=$?
git -C /tmp/wt1 checkout -q -- .
echo "seed $S vs check $ID $T: exit=$rc $(grep -c '^VIOLATION' /tmp/seedrun-$S-$ID.log) violation lines; $(grep -m1 'violation:' /tmp/seedrun-$S-$ID.log | cut -c1-220)"
