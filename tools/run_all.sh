#!/bin/bash
# Runs every check's quick (or $1) tier on /repo sequentially; prints one line per check.
D=$(cd "$(dirname "$0")/.." && pwd)
T=${1:-quick}
for id in ${RUN_IDS:-C01 C02 C03 C04 C05 C06 C07 C08 C09 C10 C11 C12 C13 C14 C15 C16 C17 C18 C19 C20}; do
  s=$(date +%s)
  "$D/check" $id $T > /tmp/runall-$id-$T.log 2>&1; rc=$?
  echo "$id $T exit=$rc $(( $(date +%s) - s ))s $(grep -c '^KNOWN-FINDING' /tmp/runall-$id-$T.log) known $(grep -c '^INCONCLUSIVE' /tmp/runall-$id-$T.log) inconclusive"
done
