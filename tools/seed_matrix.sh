#!/bin/bash
# Runs every stored seed against the check of its property (and extra checks named in tools/seed_extra.txt)
# (fail-fast: harnesses after the first one that reports a violation are skipped; random-input self-check off)
# on the scratch worktree /tmp/wt2; writes $D/seeded/RESULTS.md and fills detected_by in each meta.json.
# Sharding: SHARD=i NSHARD=n runs every n-th seed (own worktree SEED_WT) and writes RESULTS.md.part<i>; tools/seed_matrix_par.sh merges.
WT=${SEED_WT:-/tmp/wt2}
D=$(cd "$(dirname "$0")/.." && pwd)
OUT=$D/seeded/RESULTS.md
SHARD=${SHARD:-0}; NSHARD=${NSHARD:-1}
[ $NSHARD -gt 1 ] && OUT=$OUT.part$SHARD
idx=-1
echo "| seed | check | exit | first violation |" > $OUT.tmp; echo "|---|---|---|---|" >> $OUT.tmp
git -C $WT checkout -q --detach $(git -C /repo rev-parse HEAD)
for d in $D/seeded/*/; do
  s=$(basename $d); prop=${s%%-*}
  idx=$((idx+1)); [ $((idx % NSHARD)) -ne $SHARD ] && continue
  checks=$prop
  extra=$(grep "^$s " $D/tools/seed_extra.txt 2>/dev/null | cut -d' ' -f2-)
  [ -n "$extra" ] && checks="$extra"
  det=""
  for c in $checks; do
    git -C $WT checkout -q -- . ; git -C $WT clean -fdq
    if ! git -C $WT apply $d/patch.diff 2>/dev/null; then echo "| $s | $c | - | patch does not apply to current HEAD |" >> $OUT.tmp; continue; fi
    VERIF_FAILFAST=1 VERIF_NO_SAMPLE=1 VERIF_REPO=$WT timeout 3000 $D/check $c quick > /tmp/matrix-$s-$c.log 2>&1; rc=$?
    v=$(grep -m1 'violation:' /tmp/matrix-$s-$c.log | sed 's/^ *violation: //' | cut -c1-160 | tr '|' '/')
    echo "| $s | $c | $rc | $v |" >> $OUT.tmp
    [ $rc -eq 1 ] && det="$det $c"
  done
  git -C $WT checkout -q -- .
  python3 - "$d/meta.json" "$det" <<'PY'
import json,sys
p,det=sys.argv[1],sys.argv[2].split()
m=json.load(open(p)); m['detected_by']=[f"./check {c} quick (exit 1, VIOLATION line, natively replayed)" for c in det] or "NOT detected by the checks run (see RESULTS.md)"
json.dump(m,open(p,'w'),indent=1)
PY
done
mv $OUT.tmp $OUT
