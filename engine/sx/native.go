package sx

import (
	"bytes"
	"context"
	"encoding/json"
	"fmt"
	"os"
	"os/exec"
	"path/filepath"
	"sort"
	"strings"
	"sync"
	"time"
)

// Native builds and runs harnesses natively (go test -overlay) for replay and
// conformance checking.
type Native struct {
	Repo, HarnessDir, WorkDir string
	mu                        sync.Mutex
	bins                      map[string]string
	BuildSecs                 float64
}

func NewNative(repo, harnessDir, workDir string) *Native {
	return &Native{Repo: repo, HarnessDir: harnessDir, WorkDir: workDir, bins: map[string]string{}}
}

func goEnv() []string {
	env := os.Environ()
	env = append(env, "GOFLAGS=-mod=mod", "GOWORK=off", "GOPROXY=off", "GOSUMDB=off", "GOTOOLCHAIN=local")
	return env
}

// Build compiles the test binary for pkg (ecs, filter, ...) with tags.
func (n *Native) Build(pkg, tags string, race bool) (string, error) {
	return n.BuildMode(pkg, tags, race, false)
}

// BuildMode: checkptr instruments unsafe pointer arithmetic (-d=checkptr) so that
// out-of-allocation unsafe.Add results abort the native run.
func (n *Native) BuildMode(pkg, tags string, race bool, checkptr bool) (string, error) {
	key := pkg + "|" + tags + fmt.Sprint(race) + fmt.Sprint(checkptr)
	n.mu.Lock()
	defer n.mu.Unlock()
	if b, ok := n.bins[key]; ok {
		return b, nil
	}
	t0 := time.Now()
	dir := filepath.Join(n.WorkDir, "native-"+pkg+"-"+strings.ReplaceAll(tags, ",", "_")+fmt.Sprint(race)+fmt.Sprint(checkptr))
	os.RemoveAll(dir)
	if err := os.MkdirAll(dir, 0o755); err != nil {
		return "", err
	}
	replace := map[string]string{}
	for _, hp := range []string{"ecs", "filter", "listener", "generic"} {
		files, _ := filepath.Glob(filepath.Join(n.HarnessDir, hp, "*.go"))
		sort.Strings(files)
		if len(files) == 0 {
			continue
		}
		for _, f := range files {
			base := filepath.Base(f)
			if strings.HasSuffix(base, "_sym.go") {
				continue
			}
			replace[filepath.Join(n.Repo, hp, "zz_verif_"+base)] = f
		}
		tmpls := []struct{ tmpl, out string }{{"rt_native.go.tmpl", "zz_verif_rt.go"}}
		if hp == pkg {
			tmpls = append(tmpls, struct{ tmpl, out string }{"rt_test.go.tmpl", "zz_verif_rt_test.go"})
		}
		for _, t := range tmpls {
			data, err := os.ReadFile(filepath.Join(n.HarnessDir, "rt", t.tmpl))
			if err != nil {
				return "", err
			}
			data = []byte(strings.Replace(string(data), "package PKG", "package "+hp, 1))
			real := filepath.Join(dir, hp+"_"+t.out)
			if err := os.WriteFile(real, data, 0o644); err != nil {
				return "", err
			}
			replace[filepath.Join(n.Repo, hp, t.out)] = real
		}
	}
	ov, _ := json.Marshal(map[string]any{"Replace": replace})
	ovPath := filepath.Join(dir, "overlay.json")
	os.WriteFile(ovPath, ov, 0o644)
	bin := filepath.Join(dir, pkg+".test")
	args := []string{"test", "-c", "-vet=off", "-overlay", ovPath, "-o", bin}
	if tags != "" {
		args = append(args, "-tags="+tags)
	}
	if race {
		args = append(args, "-race")
	}
	if checkptr {
		args = append(args, "-gcflags=all=-d=checkptr")
	}
	args = append(args, "./"+pkg)
	cmd := exec.Command("go", args...)
	cmd.Dir = n.Repo
	cmd.Env = goEnv()
	out, err := cmd.CombinedOutput()
	if err != nil {
		return "", fmt.Errorf("native build failed: %v\n%s", err, out)
	}
	n.bins[key] = bin
	n.BuildSecs += time.Since(t0).Seconds()
	return bin, nil
}

// NativeOutcome is the result of a native harness run.
type NativeOutcome struct {
	Outcome string   // VERIF-OK | VERIF-ASSERT-FAILED: label | VERIF-PANIC: msg | VERIF-ASSUME-FAILED...
	Logs    []string // VLOG lines
	Raw     string
}

// RunRandom executes harness natively n times with pseudo-random inputs
// (seeds seed0..seed0+n-1) and tallies the outcomes.
func (n *Native) RunRandom(bin, harness string, count int, seed0 int) (ok, assumeFailed int, failures []string) {
	for i := 0; i < count; i++ {
		ctx, cancel := context.WithTimeout(context.Background(), 2*time.Minute)
		cmd := exec.CommandContext(ctx, bin, "-test.run", "^TestVerifReplay$", "-test.count", "1", "-test.v")
		cmd.Dir = filepath.Dir(bin)
		cmd.Env = append(os.Environ(), "VERIF_HARNESS="+harness, "VERIF_REPLAY=", fmt.Sprintf("VERIF_RANDOM=%d", seed0+i+1))
		out, _ := cmd.CombinedOutput()
		cancel()
		outcome := ""
		for _, l := range strings.Split(string(out), "\n") {
			if strings.HasPrefix(l, "VERIF-OUTCOME ") {
				outcome = strings.TrimPrefix(l, "VERIF-OUTCOME ")
			}
		}
		switch {
		case outcome == "VERIF-OK":
			ok++
		case strings.HasPrefix(outcome, "VERIF-ASSUME-FAILED"):
			assumeFailed++
		default:
			if outcome == "" {
				outcome = "no outcome: " + tail(string(out), 300)
			}
			failures = append(failures, fmt.Sprintf("seed %d: %s", seed0+i+1, outcome))
		}
	}
	return
}

// Run executes harness natively with the given assignment file ("" = none).
func (n *Native) Run(bin, harness, replay string, repeat int) (NativeOutcome, error) {
	ctx, cancel := context.WithTimeout(context.Background(), 5*time.Minute)
	defer cancel()
	cmd := exec.CommandContext(ctx, bin, "-test.run", "^TestVerifReplay$", "-test.count", fmt.Sprint(max(1, repeat)), "-test.v")
	cmd.Dir = filepath.Dir(bin)
	cmd.Env = append(os.Environ(), "VERIF_HARNESS="+harness, "VERIF_REPLAY="+replay)
	var buf bytes.Buffer
	cmd.Stdout = &buf
	cmd.Stderr = &buf
	err := cmd.Run()
	res := NativeOutcome{Raw: buf.String()}
	for _, l := range strings.Split(buf.String(), "\n") {
		if strings.HasPrefix(l, "VLOG ") {
			res.Logs = append(res.Logs, strings.TrimPrefix(l, "VLOG "))
		}
		if strings.HasPrefix(l, "VERIF-OUTCOME ") {
			o := strings.TrimPrefix(l, "VERIF-OUTCOME ")
			// with repeats: keep the first non-OK outcome
			if res.Outcome == "" || res.Outcome == "VERIF-OK" {
				res.Outcome = o
			}
		}
	}
	if strings.Contains(res.Raw, "WARNING: DATA RACE") {
		res.Outcome = "VERIF-RACE: the race detector reported a data race between two goroutines driving distinct worlds"
		return res, nil
	}
	if res.Outcome == "" && strings.Contains(res.Raw, "checkptr:") {
		res.Outcome = "VERIF-CHECKPTR: unsafe pointer arithmetic left its allocation"
		return res, nil
	}
	if res.Outcome == "" {
		return res, fmt.Errorf("native run produced no outcome (err=%v):\n%s", err, tail(buf.String(), 2000))
	}
	return res, nil
}

func tail(s string, n int) string {
	if len(s) > n {
		return s[len(s)-n:]
	}
	return s
}
