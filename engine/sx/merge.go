package sx

import (
	"go/token"
	"go/types"
	"strings"

	"golang.org/x/tools/go/ssa"
)

// If-conversion of pure regions: a symbolic `if` whose two arms, up to the
// immediate post-dominator, contain only side-effect-free instructions is
// evaluated on both arms and joined with ite terms instead of forking the path.
// This keeps short-circuit chains such as Mask.Contains (a && b && c && d) on
// one path. Anything that could fault or fork inside the region aborts the
// merge and falls back to ordinary forking.

type specAbort struct{}

func (fi *FnInfo) ipdom(b *ssa.BasicBlock) *ssa.BasicBlock {
	fi.pdOnce.Do(func() { fi.computePostDom() })
	i := fi.ipd[b.Index]
	if i < 0 {
		return nil
	}
	return fi.fn.Blocks[i]
}

func (fi *FnInfo) computePostDom() {
	blocks := fi.fn.Blocks
	n := len(blocks)
	// pdom sets as bitsets over n+1 nodes (n = virtual exit)
	words := (n + 1 + 63) / 64
	full := make([]uint64, words)
	for i := 0; i <= n; i++ {
		full[i/64] |= 1 << (i % 64)
	}
	pd := make([][]uint64, n+1)
	for i := 0; i <= n; i++ {
		pd[i] = append([]uint64(nil), full...)
	}
	exit := make([]uint64, words)
	exit[n/64] |= 1 << (n % 64)
	pd[n] = exit
	succs := func(i int) []int {
		b := blocks[i]
		if len(b.Succs) == 0 {
			return []int{n}
		}
		out := make([]int, len(b.Succs))
		for k, s := range b.Succs {
			out[k] = s.Index
		}
		return out
	}
	changed := true
	for changed {
		changed = false
		for i := n - 1; i >= 0; i-- {
			nw := append([]uint64(nil), full...)
			for _, s := range succs(i) {
				for w := range nw {
					nw[w] &= pd[s][w]
				}
			}
			nw[i/64] |= 1 << (i % 64)
			for w := range nw {
				if nw[w] != pd[i][w] {
					changed = true
				}
			}
			pd[i] = nw
		}
	}
	has := func(set []uint64, i int) bool { return set[i/64]&(1<<(i%64)) != 0 }
	count := func(set []uint64) int {
		c := 0
		for i := 0; i <= n; i++ {
			if has(set, i) {
				c++
			}
		}
		return c
	}
	fi.ipd = make([]int, n)
	for i := 0; i < n; i++ {
		// immediate post-dominator: the strict post-dominator with the largest pdom set
		best, bestc := -1, -1
		for j := 0; j <= n; j++ {
			if j == i || !has(pd[i], j) {
				continue
			}
			c := count(pd[j])
			if c > bestc {
				best, bestc = j, c
			}
		}
		if best == n {
			best = -1
		}
		fi.ipd[i] = best
	}
}

func (p *Program) pureInstr(ins ssa.Instruction) bool {
	switch x := ins.(type) {
	case *ssa.BinOp:
		return true
	case *ssa.UnOp:
		return x.Op != token.ARROW
	case *ssa.Field, *ssa.FieldAddr, *ssa.Extract, *ssa.Convert, *ssa.ChangeType, *ssa.Phi, *ssa.Jump, *ssa.If,
		*ssa.IndexAddr, *ssa.Index, *ssa.ChangeInterface, *ssa.DebugRef:
		return true
	case *ssa.Alloc:
		return !x.Heap
	case *ssa.Store:
		return true // only to locals of the evaluated function; checked at run time
	case *ssa.Call:
		if x.Call.IsInvoke() {
			return false
		}
		if fn, ok := x.Call.Value.(*ssa.Function); ok {
			if _, ok := pureHarness[shortName(fn)]; ok {
				return true
			}
			return p.pureFn(fn)
		}
	}
	return false
}

func shortName(fn *ssa.Function) string {
	if fn.Pkg == nil || !strings.HasPrefix(fn.Pkg.Pkg.Path(), ModPath) {
		return ""
	}
	return fn.Name()
}

// pureHarness: harness primitives without side effects.
var pureHarness = map[string]func(a []Value) Value{
	"vAnd":     func(a []Value) Value { return And(a[0].(*Term), a[1].(*Term)) },
	"vOr":      func(a []Value) Value { return Or(a[0].(*Term), a[1].(*Term)) },
	"vImplies": func(a []Value) Value { return Or(Not(a[0].(*Term)), a[1].(*Term)) },
	"vIte64":   func(a []Value) Value { return Ite(a[0].(*Term), a[1].(*Term), a[2].(*Term)) },
	"vB2U":     func(a []Value) Value { return BoolToBV(a[0].(*Term), 64) },
}

// pureFn: body consists of pure instructions and returns only, acyclic CFG.
func (p *Program) pureFn(fn *ssa.Function) bool {
	if v, ok := p.pure.Load(fn); ok {
		return v.(bool)
	}
	p.pure.Store(fn, false) // recursion guard
	ok := len(fn.Blocks) > 0 && len(fn.Blocks) <= 40
	if _, isIntr := intrinsics[fn.String()]; isIntr {
		ok = false
	}
	if _, isH := harnessIntrinsics[shortName(fn)]; isH {
		ok = false
	}
	if ok {
		// acyclic: block indices along edges must allow a DFS without back edges
		color := make([]int, len(fn.Blocks))
		var dfs func(b *ssa.BasicBlock) bool
		dfs = func(b *ssa.BasicBlock) bool {
			color[b.Index] = 1
			for _, s := range b.Succs {
				if color[s.Index] == 1 {
					return false
				}
				if color[s.Index] == 0 && !dfs(s) {
					return false
				}
			}
			color[b.Index] = 2
			return true
		}
		ok = dfs(fn.Blocks[0])
	}
	if ok {
	outer:
		for _, b := range fn.Blocks {
			for _, ins := range b.Instrs {
				if _, isRet := ins.(*ssa.Return); isRet {
					continue
				}
				if !p.pureInstr(ins) {
					if DebugPure {
						println("impure:", fn.String(), ins.String())
					}
					ok = false
					break outer
				}
			}
		}
	}
	p.pure.Store(fn, ok)
	return ok
}

const maxMergePaths = 64

var DebugPure = false

// tryMerge attempts to if-convert the region of the If terminating f.blk.
func (st *State) tryMerge(f *Frame, cond *Term) (merged bool) {
	if st.run.Opts.NoMerge {
		return false
	}
	join := f.fi.ipdom(f.blk)
	if join == nil {
		return false
	}
	// region purity check (cached per If block)
	ok, known := f.fi.mergeOK[f.blk.Index]
	if !known {
		ok = st.run.P.regionPure(f.blk, join)
		f.fi.mergeMu.Lock()
		f.fi.mergeOK[f.blk.Index] = ok
		f.fi.mergeMu.Unlock()
	}
	if !ok {
		return false
	}
	type arrival struct {
		guard *Term
		vals  []Value
	}
	var phis []*ssa.Phi
	for _, ins := range join.Instrs {
		if p, ok := ins.(*ssa.Phi); ok {
			phis = append(phis, p)
		} else {
			break
		}
	}
	var arrivals []arrival
	start := f.blk
	savedBlk, savedPrev, savedIP := f.blk, f.prev, f.ip
	st.spec = true
	defer func() {
		st.spec = false
		if e := recover(); e != nil {
			if _, isSpec := e.(specAbort); isSpec {
				f.blk, f.prev, f.ip = savedBlk, savedPrev, savedIP
				merged = false
				return
			}
			panic(e)
		}
	}()
	var walk func(from, b *ssa.BasicBlock, guard *Term)
	walk = func(from, b *ssa.BasicBlock, guard *Term) {
		if len(arrivals) > maxMergePaths {
			panic(specAbort{})
		}
		if b == join {
			idx := -1
			for i, p := range join.Preds {
				if p == from {
					idx = i
				}
			}
			vals := make([]Value, len(phis))
			for i, p := range phis {
				vals[i] = st.get(f, p.Edges[idx])
			}
			arrivals = append(arrivals, arrival{guard, vals})
			return
		}
		// execute phis of b for edge from->b, then the body
		f.prev, f.blk = from, b
		var pv []Value
		np := 0
		for _, ins := range b.Instrs {
			p, ok := ins.(*ssa.Phi)
			if !ok {
				break
			}
			idx := -1
			for i, pr := range b.Preds {
				if pr == from {
					idx = i
				}
			}
			pv = append(pv, st.get(f, p.Edges[idx]))
			np++
		}
		for i := 0; i < np; i++ {
			st.set(f, b.Instrs[i].(*ssa.Phi), pv[i])
		}
		for i := np; i < len(b.Instrs); i++ {
			ins := b.Instrs[i]
			switch x := ins.(type) {
			case *ssa.Jump:
				walk(b, b.Succs[0], guard)
				return
			case *ssa.If:
				c := st.term(f, x.Cond)
				if c.Op == OConst {
					if c.K != 0 {
						walk(b, b.Succs[0], guard)
					} else {
						walk(b, b.Succs[1], guard)
					}
					return
				}
				// registers written on the first arm do not matter for the second (SSA)
				walk(b, b.Succs[0], And(guard, c))
				f.prev, f.blk = from, b
				walk(b, b.Succs[1], And(guard, Not(c)))
				return
			default:
				f.blk = b
				f.ip = i
				st.stepPure(f, ins)
			}
		}
		panic(specAbort{})
	}
	walk(start, start.Succs[0], cond)
	walk(start, start.Succs[1], Not(cond))
	st.spec = false
	if len(arrivals) == 0 {
		return false
	}
	// join: phi = ite chain over arrivals
	res := make([]Value, len(phis))
	for i := range phis {
		v := arrivals[len(arrivals)-1].vals[i]
		for k := len(arrivals) - 2; k >= 0; k-- {
			nv, ok := iteValue(arrivals[k].guard, arrivals[k].vals[i], v)
			if !ok {
				f.blk, f.prev, f.ip = savedBlk, savedPrev, savedIP
				return false
			}
			v = nv
		}
		res[i] = v
	}
	for i, p := range phis {
		st.set(f, p, res[i])
	}
	f.prev = start
	f.blk = join
	f.ip = len(phis)
	st.run.merges.Add(1)
	return true
}

func iteValue(c *Term, a, b Value) (Value, bool) {
	switch x := a.(type) {
	case *Term:
		y, ok := b.(*Term)
		if !ok || x.W != y.W {
			return nil, false
		}
		return Ite(c, x, y), true
	case Struct:
		y, ok := b.(Struct)
		if !ok || len(x) != len(y) {
			return nil, false
		}
		out := make(Struct, len(x))
		for i := range x {
			v, ok := iteValue(c, x[i], y[i])
			if !ok {
				return nil, false
			}
			out[i] = v
		}
		return out, true
	case Ptr:
		if y, ok := b.(Ptr); ok && x == y {
			return x, true
		}
	case Tuple:
		y, ok := b.(Tuple)
		if !ok || len(x) != len(y) {
			return nil, false
		}
		out := make(Tuple, len(x))
		for i := range x {
			v, ok := iteValue(c, x[i], y[i])
			if !ok {
				return nil, false
			}
			out[i] = v
		}
		return out, true
	case nil:
		if b == nil {
			return nil, true
		}
	case Str:
		if y, ok := b.(Str); ok && x == y {
			return x, true
		}
	}
	return nil, false
}

func (p *Program) regionPure(start, join *ssa.BasicBlock) bool {
	seen := map[*ssa.BasicBlock]bool{}
	count := 0
	var visit func(b *ssa.BasicBlock, onStack map[*ssa.BasicBlock]bool) bool
	visit = func(b *ssa.BasicBlock, onStack map[*ssa.BasicBlock]bool) bool {
		if b == join {
			return true
		}
		if onStack[b] {
			return false // loop
		}
		if seen[b] {
			return true
		}
		seen[b] = true
		if len(b.Succs) == 0 {
			return false
		}
		for _, ins := range b.Instrs {
			count++
			if count > 200 || !p.pureInstr(ins) {
				return false
			}
			switch ins.(type) {
			case *ssa.Alloc, *ssa.Store:
				return false
			}
		}
		onStack[b] = true
		for _, s := range b.Succs {
			if !visit(s, onStack) {
				return false
			}
		}
		delete(onStack, b)
		return true
	}
	for _, s := range start.Succs {
		if !visit(s, map[*ssa.BasicBlock]bool{start: true}) {
			return false
		}
	}
	return true
}

// stepPure executes one pure instruction in speculative mode.
func (st *State) stepPure(f *Frame, ins ssa.Instruction) {
	switch x := ins.(type) {
	case *ssa.BinOp:
		st.set(f, x, st.binop(x.Op, x.X.Type(), st.get(f, x.X), st.get(f, x.Y), x.Y.Type()))
	case *ssa.UnOp:
		st.set(f, x, st.unop(f, x))
	case *ssa.ChangeInterface:
		st.set(f, x, st.get(f, x.X))
	case *ssa.ChangeType:
		st.set(f, x, st.get(f, x.X))
	case *ssa.Convert:
		st.set(f, x, st.convert(st.get(f, x.X), x.X.Type(), x.Type()))
	case *ssa.Extract:
		st.set(f, x, st.get(f, x.Tuple).(Tuple)[x.Index])
	case *ssa.Field:
		st.set(f, x, st.get(f, x.X).(Struct)[x.Field])
	case *ssa.FieldAddr:
		p := st.get(f, x.X).(Ptr)
		if p.Blk == 0 {
			panic(specAbort{})
		}
		s := elemOfPtr(x.X.Type()).Underlying().(*types.Struct)
		st.set(f, x, Ptr{p.Blk, p.Off + fieldOffsets(s)[x.Field]})
	case *ssa.Index:
		st.set(f, x, st.index(f, x))
	case *ssa.IndexAddr:
		st.set(f, x, st.indexAddr(f, x))
	case *ssa.DebugRef:
	case *ssa.Alloc:
		t := elemOfPtr(x.Type())
		b := st.newBlock(sizeof(t), t, 1, BStack)
		f.locals = append(f.locals, b)
		st.set(f, x, Ptr{Blk: b})
	case *ssa.Store:
		p, ok := st.get(f, x.Addr).(Ptr)
		if !ok || f.symGuard {
			panic(specAbort{})
		}
		mine := false
		for _, l := range f.locals {
			if l == p.Blk {
				mine = true
			}
		}
		if !mine || !f.pureEval {
			panic(specAbort{})
		}
		st.Store(p, x.Val.Type(), st.get(f, x.Val))
	case *ssa.Call:
		fn := x.Call.Value.(*ssa.Function)
		args := make([]Value, len(x.Call.Args))
		for i, a := range x.Call.Args {
			args[i] = st.get(f, a)
			if _, isSym := args[i].(SymPtr); isSym {
				panic(specAbort{})
			}
		}
		if h, ok := pureHarness[shortName(fn)]; ok {
			st.set(f, x, h(args))
		} else {
			st.set(f, x, st.evalPureFn(fn, args, f.depth+1))
		}
	default:
		panic(specAbort{})
	}
}

// evalPureFn evaluates a pure function on all its paths and merges the results.
func (st *State) evalPureFn(fn *ssa.Function, args []Value, depth int) Value {
	if depth > 8 {
		panic(specAbort{})
	}
	fi := st.run.P.info(fn)
	fr := &Frame{fi: fi, regs: make([]Value, fi.nslots), blk: fn.Blocks[0], pureEval: true, depth: depth}
	for i, p := range fn.Params {
		fr.regs[fi.slots[p]] = args[i]
	}
	defer func() {
		for _, b := range fr.locals {
			st.blocks[b] = nil
		}
	}()
	type retv struct {
		guard *Term
		v     Value
	}
	var rets []retv
	var walk func(from, b *ssa.BasicBlock, guard *Term)
	walk = func(from, b *ssa.BasicBlock, guard *Term) {
		if len(rets) > maxMergePaths {
			panic(specAbort{})
		}
		fr.prev, fr.blk = from, b
		var pv []Value
		np := 0
		for _, ins := range b.Instrs {
			p, ok := ins.(*ssa.Phi)
			if !ok {
				break
			}
			idx := -1
			for i, pr := range b.Preds {
				if pr == from {
					idx = i
				}
			}
			pv = append(pv, st.get(fr, p.Edges[idx]))
			np++
		}
		for i := 0; i < np; i++ {
			st.set(fr, b.Instrs[i].(*ssa.Phi), pv[i])
		}
		for i := np; i < len(b.Instrs); i++ {
			switch x := b.Instrs[i].(type) {
			case *ssa.Jump:
				walk(b, b.Succs[0], guard)
				return
			case *ssa.If:
				c := st.term(fr, x.Cond)
				if c.Op == OConst {
					if c.K != 0 {
						walk(b, b.Succs[0], guard)
					} else {
						walk(b, b.Succs[1], guard)
					}
					return
				}
				fr.symGuard = true
				walk(b, b.Succs[0], And(guard, c))
				walk(b, b.Succs[1], And(guard, Not(c)))
				return
			case *ssa.Return:
				var res Value
				switch len(x.Results) {
				case 0:
				case 1:
					res = st.get(fr, x.Results[0])
				default:
					t := make(Tuple, len(x.Results))
					for k, r := range x.Results {
						t[k] = st.get(fr, r)
					}
					res = t
				}
				rets = append(rets, retv{guard, res})
				return
			default:
				fr.blk = b
				fr.ip = i
				st.stepPure(fr, b.Instrs[i])
			}
		}
		panic(specAbort{})
	}
	walk(nil, fn.Blocks[0], B(true))
	if len(rets) == 0 {
		panic(specAbort{})
	}
	v := rets[len(rets)-1].v
	for k := len(rets) - 2; k >= 0; k-- {
		nv, ok := iteValue(rets[k].guard, rets[k].v, v)
		if !ok {
			panic(specAbort{})
		}
		v = nv
	}
	return v
}
