package sx

import (
	"fmt"
	"go/types"
	"sort"
	"sync"

	"golang.org/x/tools/go/ssa"
)

// Value is a runtime value of the interpreter:
//
//	*Term    scalar (Bool has W==0)
//	Ptr      pointer (nil: Blk==0)
//	Slice    slice header with concrete len/cap
//	Str      concrete string
//	Iface    interface value (T==nil: nil interface)
//	Struct   struct or array register value
//	Tuple    multiple results
//	MapRef   map (0: nil map)
//	*Closure function value (nil: nil func)
//	RType    reflect.Type payload (inside Iface)
//	RValue   reflect.Value
type Value interface{}

type Ptr struct {
	Blk int
	Off int64
}

// SymPtr addresses element Idx (symbolic, proven in range) of a small scalar
// array: loads/stores through it become ite chains instead of forks.
type SymPtr struct {
	Blk    int
	Base   int64
	Stride int64
	Idx    *Term
	N      int64
}

type Slice struct {
	P        Ptr
	Len, Cap int64
}

type Str string

type Iface struct {
	T types.Type
	V Value
}

type Struct []Value
type Tuple []Value
type MapRef int

type Closure struct {
	Fn   *ssa.Function
	Bind []Value
	// native intrinsic name for bodies without SSA
	Native string
}

type RType struct{ T types.Type }

// RValue models reflect.Value: a value of type T stored at P (Indirect), or for
// pointer-kind values obtained from ValueOf(ptr): T is the pointer type and
// PtrVal is the pointer itself.
type RValue struct {
	T        types.Type
	P        Ptr  // address of the storage holding the value (when Addr)
	Addr     bool // addressable: P is valid
	PtrVal   Ptr  // for pointer-kind values not stored anywhere
	HasPtr   bool
	IsZeroRV bool
}

// Cell is one stored leaf.
type Cell struct {
	Size int64
	V    Value
}

type MapEntry struct {
	K, V Value
}

type MapObj struct {
	KT, VT  types.Type
	Entries []MapEntry
}

type BlockKind uint8

const (
	BHeap BlockKind = iota
	BStack
	BGlobal
	BMap
)

// Block is an allocation.
type Block struct {
	Size  int64
	Typ   types.Type // allocation type (element type for arrays made by make/reflect)
	Count int64      // number of elements of Typ (1 for plain allocs)
	Cells map[int64]Cell
	Kind  BlockKind
	Freed bool
	M     *MapObj
	owner int64
	Name  string
	// written after init? (for C19 footprints)
	Gen int64
	MaxCell int64
}

var sizes = types.SizesFor("gc", "amd64")

func sizeof(t types.Type) int64 {
	if v, ok := sizeCache.Load(t); ok {
		return v.(int64)
	}
	var n int64
	if isReflectValue(t) {
		n = 24
	} else {
		n = sizes.Sizeof(t)
	}
	sizeCache.Store(t, n)
	return n
}

func isReflectValue(t types.Type) bool {
	if n, ok := t.(*types.Named); ok {
		o := n.Obj()
		return o.Pkg() != nil && o.Pkg().Path() == "reflect" && o.Name() == "Value"
	}
	return false
}

func isReflectType(t types.Type) bool {
	if n, ok := t.(*types.Named); ok {
		o := n.Obj()
		return o.Pkg() != nil && o.Pkg().Path() == "reflect" && o.Name() == "Type"
	}
	return false
}

// rtypeMarker is the dynamic type of interface values holding an RType.
var rtypeMarker types.Type = types.NewNamed(types.NewTypeName(0, nil, "rtype", nil), types.NewStruct(nil, nil), nil)

// ---- state memory ops ----

func (st *State) newBlock(size int64, typ types.Type, count int64, kind BlockKind) int {
	b := &Block{Size: size, Typ: typ, Count: count, Kind: kind, owner: st.id}
	st.blocks = append(st.blocks, b)
	st.nAlloc++
	return len(st.blocks) - 1
}

func (st *State) block(i int) *Block {
	if i <= 0 || i >= len(st.blocks) || st.blocks[i] == nil {
		return nil
	}
	return st.blocks[i]
}

// wblock returns a writable (owned) copy of block i.
func (st *State) wblock(i int) *Block {
	b := st.blocks[i]
	if b.owner == st.id {
		return b
	}
	nb := *b
	nb.owner = st.id
	if b.Cells != nil {
		nb.Cells = make(map[int64]Cell, len(b.Cells)+1)
		for k, v := range b.Cells {
			nb.Cells[k] = v
		}
	}
	if b.M != nil {
		m := *b.M
		m.Entries = append([]MapEntry(nil), b.M.Entries...)
		nb.M = &m
	}
	st.blocks[i] = &nb
	return &nb
}

type memErr struct{ msg string }

func (e memErr) Error() string { return e.msg }

// checkRange validates an access; returns a non-nil error string for the
// engine to turn into a Go panic (nil deref) or a memory-safety event.
func (st *State) checkRange(p Ptr, n int64) *Block {
	if p.Blk == 0 {
		st.throwNilDeref()
		return nil
	}
	b := st.block(p.Blk)
	if b == nil || b.Freed {
		st.memViolation(fmt.Sprintf("use of freed/unknown block %d", p.Blk))
		return nil
	}
	if p.Off < 0 || p.Off+n > b.Size {
		st.memViolation(fmt.Sprintf("out-of-block access: block %d (%s, size %d) offset %d len %d", p.Blk, b.Name, b.Size, p.Off, n))
		return nil
	}
	return b
}

// readBytes assembles n (<=8) bytes at off as a bit-vector term (little endian).
func (st *State) readBytes(b *Block, off, n int64) *Term {
	if c, ok := b.Cells[off]; ok && c.Size == n {
		switch v := c.V.(type) {
		case *Term:
			if v.W == 0 {
				return BoolToBV(v, 8)
			}
			return v
		}
	}
	var res *Term
	for i := int64(0); i < n; i++ {
		by := st.readByte(b, off+i)
		if res == nil {
			res = by
		} else {
			res = Concat(by, res)
		}
	}
	return res
}

func (st *State) readByte(b *Block, off int64) *Term {
	if len(b.Cells) == 0 {
		return C(8, 0)
	}
	for d := int64(0); d < b.MaxCell; d++ {
		c, ok := b.Cells[off-d]
		if !ok {
			continue
		}
		if c.Size <= d {
			continue
		}
		switch v := c.V.(type) {
		case *Term:
			if v.W == 0 {
				return BoolToBV(v, 8)
			}
			return Extract(v, uint8(8*d+7), uint8(8*d))
		case Ptr:
			// byte view of a pointer: only its nil-ness is meaningful
			if v.Blk == 0 {
				return C(8, 0)
			}
			return C(8, 0xff)
		default:
			st.memViolation(fmt.Sprintf("byte-wise read cuts through an opaque cell at offset %d", off))
			return C(8, 0)
		}
	}
	return C(8, 0)
}

// clearRange removes all cells overlapping [off,off+n), splitting scalar cells
// that are only partially covered.
func (st *State) clearRange(b *Block, off, n int64) {
	if len(b.Cells) == 0 || n == 0 {
		return
	}
	var hits []int64
	if n+24 < int64(len(b.Cells)) {
		for o := off - 23; o < off+n; o++ {
			if c, ok := b.Cells[o]; ok && o+c.Size > off {
				hits = append(hits, o)
			}
		}
	} else {
		for o, c := range b.Cells {
			if o < off+n && o+c.Size > off {
				hits = append(hits, o)
			}
		}
	}
	for _, o := range hits {
		c := b.Cells[o]
		delete(b.Cells, o)
		if o >= off && o+c.Size <= off+n {
			continue
		}
		// partial overlap: keep outside bytes
		t, ok := c.V.(*Term)
		if !ok {
			st.memViolation("write cuts through a pointer/opaque cell")
			continue
		}
		if t.W == 0 {
			continue
		}
		for i := int64(0); i < c.Size; i++ {
			if o+i >= off && o+i < off+n {
				continue
			}
			by := Extract(t, uint8(8*i+7), uint8(8*i))
			if !(by.Op == OConst && by.K == 0) {
				b.Cells[o+i] = Cell{1, by}
				if b.MaxCell < 1 {
					b.MaxCell = 1
				}
			}
		}
	}
}

func isZeroVal(v Value) bool {
	switch x := v.(type) {
	case *Term:
		return x.Op == OConst && x.K == 0
	case Ptr:
		return x.Blk == 0
	case Str:
		return x == ""
	case Iface:
		return x.T == nil
	case MapRef:
		return x == 0
	case *Closure:
		return x == nil
	case RValue:
		return x.IsZeroRV
	case nil:
		return true
	}
	return false
}

// pointerful reports whether v carries a heap reference the collector must see.
func pointerful(v Value) bool {
	switch x := v.(type) {
	case Ptr:
		return x.Blk != 0
	case Str:
		return x != ""
	case Iface:
		return x.T != nil
	case MapRef:
		return x != 0
	case *Closure:
		return x != nil
	case RValue:
		return !x.IsZeroRV
	}
	return false
}

var ptrSlotCache sync.Map // types.Type -> map[int64]bool (offsets of pointer words inside one element)

func ptrSlots(t types.Type) map[int64]bool {
	if v, ok := ptrSlotCache.Load(t); ok {
		return v.(map[int64]bool)
	}
	m := map[int64]bool{}
	var walk func(t types.Type, off int64)
	walk = func(t types.Type, off int64) {
		if isReflectValue(t) {
			m[off], m[off+8] = true, true
			return
		}
		switch u := t.Underlying().(type) {
		case *types.Basic:
			switch u.Kind() {
			case types.String, types.UnsafePointer:
				m[off] = true
			}
		case *types.Pointer, *types.Map, *types.Signature, *types.Chan, *types.Slice:
			m[off] = true
		case *types.Interface:
			m[off], m[off+8] = true, true
		case *types.Struct:
			offs := fieldOffsets(u)
			for i := 0; i < u.NumFields(); i++ {
				walk(u.Field(i).Type(), off+offs[i])
			}
		case *types.Array:
			es := sizeof(u.Elem())
			if u.Len() <= 1024 {
				for i := int64(0); i < u.Len(); i++ {
					walk(u.Elem(), off+i*es)
				}
			}
		}
	}
	walk(t, 0)
	ptrSlotCache.Store(t, m)
	return m
}

func (st *State) setCell(b *Block, off, size int64, v Value) {
	if isZeroVal(v) {
		return
	}
	if st.gcCheck && b.Typ != nil && pointerful(v) {
		es := sizeof(b.Typ)
		rel := off
		if es > 0 {
			rel = off % es
		}
		if !ptrSlots(b.Typ)[rel] {
			st.gcViolation(fmt.Sprintf("a pointer-carrying value is stored at offset %d of memory allocated as %s (%s): the garbage collector does not see it", off, b.Typ.String(), b.Name))
		}
	}
	if b.Cells == nil {
		b.Cells = map[int64]Cell{}
	}
	b.Cells[off] = Cell{size, v}
	if size > b.MaxCell {
		b.MaxCell = size
	}
}

// Load reads a value of type t at p.
func (st *State) Load(p Ptr, t types.Type) Value {
	n := sizeof(t)
	b := st.checkRange(p, n)
	if b == nil {
		return zeroValue(t)
	}
	st.noteRead(p.Blk)
	return st.loadAt(b, p.Off, t)
}

func (st *State) loadAt(b *Block, off int64, t types.Type) Value {
	if isReflectValue(t) {
		if c, ok := b.Cells[off]; ok {
			if rv, ok := c.V.(RValue); ok {
				return rv
			}
			st.memViolation("reflect.Value load from non-reflect cell")
		}
		return RValue{IsZeroRV: true}
	}
	switch u := t.Underlying().(type) {
	case *types.Basic:
		switch {
		case u.Kind() == types.String:
			if c, ok := b.Cells[off]; ok {
				if s, ok := c.V.(Str); ok {
					return s
				}
				st.memViolation("string load from non-string cell")
			}
			return Str("")
		case u.Kind() == types.UnsafePointer:
			return st.loadPtr(b, off)
		case u.Info()&types.IsBoolean != 0:
			if c, ok := b.Cells[off]; ok && c.Size == 1 {
				if v, ok := c.V.(*Term); ok && v.W == 0 {
					return v
				}
			}
			by := st.readBytes(b, off, 1)
			return Not(Eq(by, C(8, 0)))
		default:
			n := sizeof(t)
			return st.readBytes(b, off, n)
		}
	case *types.Pointer:
		return st.loadPtr(b, off)
	case *types.Struct:
		nf := u.NumFields()
		out := make(Struct, nf)
		offs := fieldOffsets(u)
		for i := 0; i < nf; i++ {
			out[i] = st.loadAt(b, off+offs[i], u.Field(i).Type())
		}
		return out
	case *types.Array:
		n := u.Len()
		es := sizeof(u.Elem())
		out := make(Struct, n)
		for i := int64(0); i < n; i++ {
			out[i] = st.loadAt(b, off+i*es, u.Elem())
		}
		return out
	case *types.Slice:
		p := st.loadPtr(b, off)
		l := st.readBytes(b, off+8, 8)
		c := st.readBytes(b, off+16, 8)
		return Slice{P: p, Len: st.mustConst(l), Cap: st.mustConst(c)}
	case *types.Interface:
		if c, ok := b.Cells[off]; ok {
			if v, ok := c.V.(Iface); ok {
				return v
			}
			st.memViolation("interface load from non-interface cell")
		}
		return Iface{}
	case *types.Map:
		if c, ok := b.Cells[off]; ok {
			if v, ok := c.V.(MapRef); ok {
				return v
			}
			st.memViolation("map load from non-map cell")
		}
		return MapRef(0)
	case *types.Signature:
		if c, ok := b.Cells[off]; ok {
			if v, ok := c.V.(*Closure); ok {
				return v
			}
			st.memViolation("func load from non-func cell")
		}
		return (*Closure)(nil)
	}
	st.fail("unsupported load type " + t.String())
	return nil
}

func (st *State) loadPtr(b *Block, off int64) Ptr {
	if c, ok := b.Cells[off]; ok {
		if p, ok := c.V.(Ptr); ok {
			return p
		}
		if t, ok := c.V.(*Term); ok && c.Size == 8 && t.Op == OConst && t.K == 0 {
			return Ptr{}
		}
		st.memViolation(fmt.Sprintf("pointer load from non-pointer cell (%T) at offset %d of %s", c.V, off, b.Name))
		return Ptr{}
	}
	// any overlapping scalar bytes?
	for d := int64(1); d < 8; d++ {
		if _, ok := b.Cells[off+d]; ok {
			st.memViolation("pointer load from scalar bytes")
			return Ptr{}
		}
	}
	return Ptr{}
}

func (st *State) mustConst(t *Term) int64 {
	if t.Op != OConst {
		// slice headers always hold concrete lengths in this engine
		st.fail("symbolic slice length in memory")
		return 0
	}
	return int64(t.K)
}

var offCache sync.Map // *types.Struct -> []int64
var sizeCache sync.Map // types.Type -> int64

func fieldOffsets(s *types.Struct) []int64 {
	if o, ok := offCache.Load(s); ok {
		return o.([]int64)
	}
	var o []int64
	n := s.NumFields()
	fs := make([]*types.Var, n)
	for i := 0; i < n; i++ {
		f := s.Field(i)
		if isReflectValue(f.Type()) {
			// give it its true size (24 bytes, align 8)
			fs[i] = types.NewVar(0, nil, f.Name(), types.NewArray(types.Typ[types.Uintptr], 3))
		} else {
			fs[i] = f
		}
	}
	o = sizes.Offsetsof(fs)
	offCache.Store(s, o)
	return o
}

// Store writes v of type t at p.
func (st *State) Store(p Ptr, t types.Type, v Value) {
	n := sizeof(t)
	if st.checkRange(p, n) == nil {
		return
	}
	st.noteWrite(p.Blk)
	b := st.wblock(p.Blk)
	st.clearRange(b, p.Off, n)
	st.storeAt(b, p.Off, t, v)
}

func (st *State) storeAt(b *Block, off int64, t types.Type, v Value) {
	if isReflectValue(t) {
		st.setCell(b, off, 24, v)
		return
	}
	switch u := t.Underlying().(type) {
	case *types.Basic:
		switch {
		case u.Kind() == types.String:
			st.setCell(b, off, 16, v)
		case u.Kind() == types.UnsafePointer:
			st.setCell(b, off, 8, v)
		case u.Info()&types.IsBoolean != 0:
			st.setCell(b, off, 1, v)
		default:
			st.setCell(b, off, sizeof(t), v)
		}
	case *types.Pointer:
		st.setCell(b, off, 8, v)
	case *types.Struct:
		sv, ok := v.(Struct)
		if !ok {
			st.fail(fmt.Sprintf("store struct: value is %T", v))
			return
		}
		offs := fieldOffsets(u)
		for i := range sv {
			st.storeAt(b, off+offs[i], u.Field(i).Type(), sv[i])
		}
	case *types.Array:
		sv := v.(Struct)
		es := sizeof(u.Elem())
		for i := range sv {
			st.storeAt(b, off+int64(i)*es, u.Elem(), sv[i])
		}
	case *types.Slice:
		s := v.(Slice)
		st.setCell(b, off, 8, s.P)
		st.setCell(b, off+8, 8, C(64, uint64(s.Len)))
		st.setCell(b, off+16, 8, C(64, uint64(s.Cap)))
	case *types.Interface:
		st.setCell(b, off, 16, v)
	case *types.Map, *types.Signature:
		st.setCell(b, off, 8, v)
	default:
		st.fail("unsupported store type " + t.String())
	}
}

// copyBytes moves n bytes from src to dst (memmove semantics, cell-wise).
func (st *State) copyBytes(dst, src Ptr, n int64) {
	if n == 0 {
		return
	}
	sb := st.checkRange(src, n)
	if sb == nil {
		return
	}
	if st.checkRange(dst, n) == nil {
		return
	}
	st.noteRead(src.Blk)
	st.noteWrite(dst.Blk)
	// collect source cells
	type mv struct {
		off int64
		c   Cell
	}
	var moves []mv
	add := func(o int64, c Cell) {
		if o >= src.Off && o+c.Size <= src.Off+n {
			moves = append(moves, mv{o - src.Off, c})
			return
		}
		if o+c.Size <= src.Off || o >= src.Off+n {
			return
		}
		t, ok := c.V.(*Term)
		if !ok {
			st.memViolation("raw copy cuts through a pointer/opaque cell (source)")
			return
		}
		for i := int64(0); i < c.Size; i++ {
			if o+i >= src.Off && o+i < src.Off+n {
				var by *Term
				if t.W == 0 {
					by = BoolToBV(t, 8)
				} else {
					by = Extract(t, uint8(8*i+7), uint8(8*i))
				}
				moves = append(moves, mv{o + i - src.Off, Cell{1, by}})
			}
		}
	}
	if n+24 < int64(len(sb.Cells)) {
		for o := src.Off - 23; o < src.Off+n; o++ {
			if c, ok := sb.Cells[o]; ok {
				add(o, c)
			}
		}
	} else {
		for o, c := range sb.Cells {
			add(o, c)
		}
	}
	db := st.wblock(dst.Blk)
	st.clearRange(db, dst.Off, n)
	for _, m := range moves {
		st.setCell(db, dst.Off+m.off, m.c.Size, m.c.V)
	}
}

// zeroBytes clears n bytes at p.
func (st *State) zeroBytes(p Ptr, n int64) {
	if n == 0 {
		return
	}
	if st.checkRange(p, n) == nil {
		return
	}
	st.noteWrite(p.Blk)
	b := st.wblock(p.Blk)
	st.clearRange(b, p.Off, n)
}

// rangeIsZero reports whether [off,off+n) of the block holds no non-zero cell
// (conservative: symbolic cells count as non-zero).
func (st *State) rangeIsZero(p Ptr, n int64) bool {
	b := st.block(p.Blk)
	if b == nil {
		return true
	}
	for o, c := range b.Cells {
		if o < p.Off+n && o+c.Size > p.Off {
			if !isZeroVal(c.V) {
				return false
			}
		}
	}
	return true
}

func zeroValue(t types.Type) Value {
	if isReflectValue(t) {
		return RValue{IsZeroRV: true}
	}
	switch u := t.Underlying().(type) {
	case *types.Basic:
		switch {
		case u.Kind() == types.String:
			return Str("")
		case u.Kind() == types.UnsafePointer:
			return Ptr{}
		case u.Info()&types.IsBoolean != 0:
			return B(false)
		case u.Kind() == types.UntypedNil:
			return nil
		default:
			return C(uint8(sizes.Sizeof(t)*8), 0)
		}
	case *types.Pointer:
		return Ptr{}
	case *types.Struct:
		out := make(Struct, u.NumFields())
		for i := range out {
			out[i] = zeroValue(u.Field(i).Type())
		}
		return out
	case *types.Array:
		out := make(Struct, u.Len())
		z := zeroValue(u.Elem())
		for i := range out {
			out[i] = z
		}
		return out
	case *types.Slice:
		return Slice{}
	case *types.Interface:
		return Iface{}
	case *types.Map:
		return MapRef(0)
	case *types.Signature:
		return (*Closure)(nil)
	case *types.Tuple:
		out := make(Tuple, u.Len())
		for i := range out {
			out[i] = zeroValue(u.At(i).Type())
		}
		return out
	case *types.Chan:
		return Ptr{}
	}
	panic("zeroValue: unsupported type " + t.String())
}

// sortedCellOffsets is used by digests/debug output.
func sortedCellOffsets(b *Block) []int64 {
	out := make([]int64, 0, len(b.Cells))
	for o := range b.Cells {
		out = append(out, o)
	}
	sort.Slice(out, func(i, j int) bool { return out[i] < out[j] })
	return out
}
