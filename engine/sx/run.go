package sx

import (
	"fmt"
	"go/types"
	"sort"
	"strings"
	"sync"
	"sync/atomic"
	"time"

	"golang.org/x/tools/go/ssa"
)

// Options bound an exploration.
type Options struct {
	Workers        int
	MaxSteps       int64 // per path instruction budget (unwinding assertion)
	MaxPaths       int64
	Timeout        time.Duration
	SolverTimeout  int // ms per query
	Solver         string
	MapOrderChoice bool
	StopOnFirst    bool
	KeepLogs       bool
	NoMerge        bool
	NoSymPtr       bool
	CrossSolver    string // second solver (e.g. cvc5) that re-decides every property assertion
	Verbose        bool
}

func DefaultOptions() Options {
	return Options{Workers: 16, MaxSteps: 20_000_000, MaxPaths: 2_000_000, Timeout: 45 * time.Minute, SolverTimeout: 60000, Solver: "z3"}
}

// Violation is a failed assertion / unexpected panic with a witness.
type Violation struct {
	Harness string
	Kind    string // assert | panic | memory-safety
	Label   string
	Msg     string
	Model   map[string]uint64 // symbol -> value (all symbols of the path)
	Syms    []Sym
	Choices []string
	Where   string
}

// PathLog is the observation log of one finished path.
type PathLog struct {
	Lines   []string
	Choices []string
	Status  Status
	Err     string
}

// Result summarises one exploration.
type RunResult struct {
	Harness      string
	Paths        int64
	Done         int64
	Killed       int64
	Panicked     int64
	Failed       int64
	Forks        int64
	Steps        int64
	Obligations  int64
	Discharged   int64
	Violations   []Violation
	Reached      map[string]int64
	Inconclusive []string
	Solver       SolverStats
	Wall         time.Duration
	Logs         []PathLog
	MapRangeSites map[string]string
	BoundPrunes  map[string]int64
	CrossChecked, CrossUnknown int64
	SolverDecided int64 // assertions that were not constant after simplification and went to the solver
	MemEvents    int64
	Samples      []string
}

// Run is one exploration of an entry function.
type Run struct {
	P       *Program
	Opts    Options
	Harness string

	mu      sync.Mutex
	cond    *sync.Cond
	queue   []*State
	active  int
	stopped bool

	forks, enumCount, memEvents     atomic.Int64
	merges                          atomic.Int64
	crossChecked, crossUnknown      atomic.Int64
	oblSolver                       atomic.Int64
	paths, done, killed, panicked   atomic.Int64
	failed, steps, obl, discharged  atomic.Int64
	violations                      []Violation
	reached                         map[string]int64
	inconclusive                    map[string]int
	prunes                          map[string]int64
	logs                            []PathLog
	samples                         []string
	mapRangeSites                   sync.Map
	solverStats                     SolverStats
	deadline                        time.Time
}

// Worker owns a solver.
type Worker struct {
	run    *Run
	solver *Solver
	cross  *Solver
}

func (r *Run) workerOf(st *State) *Worker { return st.w }

func (r *Run) push(st *State) {
	r.mu.Lock()
	r.queue = append(r.queue, st)
	r.mu.Unlock()
	r.cond.Signal()
}

func (r *Run) pop() *State {
	r.mu.Lock()
	defer r.mu.Unlock()
	for {
		if r.stopped {
			return nil
		}
		if n := len(r.queue); n > 0 {
			st := r.queue[n-1]
			r.queue = r.queue[:n-1]
			r.active++
			return st
		}
		if r.active == 0 {
			r.cond.Broadcast()
			return nil
		}
		r.cond.Wait()
	}
}

func (r *Run) finish() {
	r.mu.Lock()
	r.active--
	if r.active == 0 && len(r.queue) == 0 {
		r.cond.Broadcast()
	}
	r.mu.Unlock()
}

func (r *Run) stop() {
	r.mu.Lock()
	r.stopped = true
	r.mu.Unlock()
	r.cond.Broadcast()
}

func (r *Run) reach(label string) {
	r.mu.Lock()
	r.reached[label]++
	r.mu.Unlock()
}

func (r *Run) notePrune(label string) {
	r.mu.Lock()
	if r.prunes == nil {
		r.prunes = map[string]int64{}
	}
	r.prunes[label]++
	r.mu.Unlock()
}

func (r *Run) noteInconclusive(msg string) {
	r.mu.Lock()
	r.inconclusive[msg]++
	r.mu.Unlock()
}

func (st *State) choiceStrings() []string {
	var out []string
	for c := st.choices; c != nil; c = c.prev {
		out = append(out, c.desc)
	}
	for i, j := 0, len(out)-1; i < j; i, j = i+1, j-1 {
		out[i], out[j] = out[j], out[i]
	}
	return out
}

func (r *Run) report(st *State, v Violation) {
	v.Harness = r.Harness
	v.Model = map[string]uint64{}
	for s := st.syms; s != nil; s = s.prev {
		v.Syms = append(v.Syms, s.s)
		v.Model[s.s.Name] = st.model[s.s.Name]
	}
	v.Choices = st.choiceStrings()
	v.Where = st.where()
	r.mu.Lock()
	r.violations = append(r.violations, v)
	r.mu.Unlock()
	if r.Opts.StopOnFirst {
		r.stop()
	}
}

// assertProp checks a property assertion on the current path.
func (st *State) assertProp(c *Term, label string) {
	r := st.run
	if len(st.pinned) > 0 && c.Op != OConst {
		c = Subst(c, st.pinned, map[*Term]*Term{})
	}
	if c.Op == OConst {
		if c.K != 0 {
			r.obl.Add(1)
			r.discharged.Add(1)
			return
		}
		// definitely violated on this path: need a model of the path
		if st.model == nil {
			res, m := st.w.solver.Check(st.pc, nil, true)
			if res != Sat {
				st.solverTrouble(res)
			}
			st.setModel(m)
		}
		r.obl.Add(1)
		r.report(st, Violation{Kind: "assert", Label: label})
		return // the run continues past the failed assertion (as the native harness would not, but later witnesses stay reachable)
	}
	r.obl.Add(1)
	r.oblSolver.Add(1)
	res, m := st.w.solver.Check(st.pc, Not(c), true)
	if r.Opts.CrossSolver != "" && res != Unknown {
		if st.w.cross == nil {
			cs, err := NewSolver(r.Opts.CrossSolver, 20000)
			if err != nil {
				r.noteInconclusive("cross solver unavailable: " + err.Error())
			}
			st.w.cross = cs
		}
		if st.w.cross != nil {
			res2, _ := st.w.cross.Check(st.pc, Not(c), false)
			r.crossChecked.Add(1)
			if res2 == Unknown {
				r.crossUnknown.Add(1)
			} else if res2 != res {
				r.noteInconclusive(fmt.Sprintf("solver disagreement on %q: %s says %v, %s says %v", label, st.w.solver.Kind, res, st.w.cross.Kind, res2))
			}
		}
	}
	switch res {
	case Unsat:
		r.discharged.Add(1)
		// c is implied; no need to add it
	case Sat:
		saved := st.model
		st.setModel(m)
		r.report(st, Violation{Kind: "assert", Label: label})
		st.setModel(saved)
		// continue under the assumption that the assertion holds
		st.assume(c)
	default:
		st.solverTrouble(res)
	}
}

func (st *State) renderLog() []string {
	var out []string
	for l := st.log; l != nil; l = l.prev {
		if l.e.T != nil {
			out = append(out, fmt.Sprintf("%s=%d", l.e.Label, st.evalModel(l.e.T)))
		} else {
			out = append(out, fmt.Sprintf("%s=%s", l.e.Label, l.e.S))
		}
	}
	for i, j := 0, len(out)-1; i < j; i, j = i+1, j-1 {
		out[i], out[j] = out[j], out[i]
	}
	return out
}

func (w *Worker) runState(st *State) {
	st.w = w
	r := w.run
	for st.status == Running {
		if time.Now().After(r.deadline) {
			r.noteInconclusive("time budget exceeded")
			st.status = Failed
			st.errMsg = "timeout"
			r.stop()
			break
		}
		w.burst(st)
	}
	r.paths.Add(1)
	r.steps.Add(st.steps)
	switch st.status {
	case Done:
		r.done.Add(1)
	case Killed:
		r.killed.Add(1)
	case Panicked:
		r.panicked.Add(1)
		if st.model == nil {
			if res, m := w.solver.Check(st.pc, nil, true); res == Sat {
				st.setModel(m)
			}
		}
		r.report(st, Violation{Kind: "panic", Label: "uncaught panic", Msg: st.errMsg})
	case Failed:
		r.failed.Add(1)
		if !strings.HasPrefix(st.errMsg, "memory-safety") {
			r.noteInconclusive("engine: " + firstLine(st.errMsg))
			if r.Opts.Verbose {
				fmt.Println("FAILED PATH:", st.errMsg, st.choiceStrings())
			}
		}
	}
	if r.Opts.KeepLogs || (st.status == Done && len(r.samples) < 3) {
		if st.model == nil && st.pc != nil {
			if res, m := w.solver.Check(st.pc, nil, true); res == Sat {
				st.setModel(m)
			}
		}
		pl := PathLog{Lines: st.renderLog(), Choices: st.choiceStrings(), Status: st.status, Err: st.errMsg}
		r.mu.Lock()
		if r.Opts.KeepLogs {
			r.logs = append(r.logs, pl)
		}
		if len(r.samples) < 3 && st.status == Done {
			r.samples = append(r.samples, strings.Join(pl.Choices, " "))
		}
		r.mu.Unlock()
	}
	if r.paths.Load() > r.Opts.MaxPaths {
		r.noteInconclusive("path budget exceeded")
		r.stop()
	}
}

func firstLine(s string) string {
	if i := strings.IndexByte(s, '\n'); i >= 0 {
		return s[:i]
	}
	return s
}

func (w *Worker) burst(st *State) {
	defer func() {
		if e := recover(); e != nil {
			if _, ok := e.(abortInstr); ok {
				return
			}
			// engine bug: convert into a failed path with diagnostics
			st.status = Failed
			st.errMsg = fmt.Sprintf("engine panic: %v%s", e, st.where())
			if w.run.Opts.Verbose {
				fmt.Println(st.errMsg)
			}
		}
	}()
	for i := 0; i < 100000 && st.status == Running; i++ {
		st.step()
	}
}

// Explore runs entry(args...) from the program's initial state.
func (p *Program) Explore(name string, entry *ssa.Function, args []Value, opts Options) *RunResult {
	r := &Run{P: p, Opts: opts, Harness: name, reached: map[string]int64{}, inconclusive: map[string]int{}}
	r.cond = sync.NewCond(&r.mu)
	r.deadline = time.Now().Add(opts.Timeout)
	t0 := time.Now()
	p.initMu.Lock()
	st := p.init.clone()
	p.initMu.Unlock()
	st.run = r
	st.pushFrame(entry, args, nil)
	r.queue = append(r.queue, st)
	var wg sync.WaitGroup
	nw := opts.Workers
	if nw < 1 {
		nw = 1
	}
	workers := make([]*Worker, nw)
	for i := 0; i < nw; i++ {
		s, err := NewSolver(opts.Solver, opts.SolverTimeout)
		if err != nil {
			panic(err)
		}
		workers[i] = &Worker{run: r, solver: s}
	}
	for i := 0; i < nw; i++ {
		wg.Add(1)
		go func(w *Worker) {
			defer wg.Done()
			for {
				st := r.pop()
				if st == nil {
					return
				}
				st.run = r
				w.runState(st)
				r.finish()
			}
		}(workers[i])
	}
	stopProg := make(chan struct{})
	if opts.Verbose {
		go func() {
			tk := time.NewTicker(5 * time.Second)
			defer tk.Stop()
			for {
				select {
				case <-stopProg:
					return
				case <-tk.C:
					r.mu.Lock()
					ql := len(r.queue)
					r.mu.Unlock()
					fmt.Printf("  .. %s t=%.0fs paths=%d queue=%d forks=%d steps=%d viol=%d\n", name, time.Since(t0).Seconds(), r.paths.Load(), ql, r.forks.Load(), r.steps.Load(), len(r.violations))
				}
			}
		}()
	}
	wg.Wait()
	close(stopProg)
	res := &RunResult{Harness: name, Paths: r.paths.Load(), Done: r.done.Load(), Killed: r.killed.Load(), Panicked: r.panicked.Load(),
		Failed: r.failed.Load(), Forks: r.forks.Load(), Steps: r.steps.Load(), Obligations: r.obl.Load(), Discharged: r.discharged.Load(),
		Violations: r.violations, Reached: r.reached, Wall: time.Since(t0), Logs: r.logs, MemEvents: r.memEvents.Load(), Samples: r.samples,
		MapRangeSites: map[string]string{}, BoundPrunes: r.prunes, CrossChecked: r.crossChecked.Load(), CrossUnknown: r.crossUnknown.Load(), SolverDecided: r.oblSolver.Load()}
	r.mapRangeSites.Range(func(k, v any) bool { res.MapRangeSites[k.(string)] = v.(string); return true })
	for _, w := range workers {
		if w.solver.Err != "" {
			r.inconclusive["solver error: "+w.solver.Err]++
		}
		res.Solver.Add(w.solver.Stats)
		w.solver.Close()
		if w.cross != nil {
			if w.cross.Err != "" {
				r.inconclusive["cross solver error: "+w.cross.Err]++
			}
			w.cross.Close()
		}
	}
	for k, n := range r.inconclusive {
		res.Inconclusive = append(res.Inconclusive, fmt.Sprintf("%s (x%d)", k, n))
	}
	sort.Strings(res.Inconclusive)
	return res
}

// InitProgram allocates globals and runs package initialisers.
func (p *Program) InitProgram(opts Options) error {
	r := &Run{P: p, Opts: opts, Harness: "<init>", reached: map[string]int64{}, inconclusive: map[string]int{}}
	r.cond = sync.NewCond(&r.mu)
	r.deadline = time.Now().Add(time.Minute)
	st := &State{run: r, id: newStateID(), symCnt: map[string]int{}, noFree: false}
	st.blocks = append(st.blocks, nil) // block 0 = nil
	var names []string
	for n := range p.Pkgs {
		names = append(names, n)
	}
	sort.Strings(names)
	for _, n := range names {
		sp := p.Pkgs[n]
		var ms []string
		for mn := range sp.Members {
			ms = append(ms, mn)
		}
		sort.Strings(ms)
		for _, mn := range ms {
			if g, ok := sp.Members[mn].(*ssa.Global); ok {
				t := elemOfPtr(g.Type())
				b := st.newBlock(sizeof(t), t, 1, BGlobal)
				st.blocks[b].Name = g.String()
				p.globals[g] = b
			}
		}
	}
	s, err := NewSolver(opts.Solver, opts.SolverTimeout)
	if err != nil {
		return err
	}
	w := &Worker{run: r, solver: s}
	defer s.Close()
	for _, n := range names {
		sp := p.Pkgs[n]
		initFn := sp.Func("init")
		if initFn == nil {
			continue
		}
		st.status = Running
		st.pushFrame(initFn, nil, nil)
		st.w = w
		for st.status == Running {
			w.burst(st)
		}
		if st.status != Done {
			return fmt.Errorf("init of %s failed: %v %s", n, st.status, st.errMsg)
		}
	}
	st.status = Running
	st.steps = 0
	p.init = st
	return nil
}

// typeString helper for diagnostics.
func typeString(t types.Type) string { return types.TypeString(t, nil) }
