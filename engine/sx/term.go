// Package sx is a forking symbolic interpreter over go/ssa.
package sx

import (
	"fmt"
	"math/bits"
	"strings"
	"sync"
)

// Op is a term operator.
type Op uint8

const (
	OConst Op = iota // bit-vector or bool constant (w==0: bool)
	OVar
	ONot // bool
	OAnd
	OOr
	OEq // any sort -> bool
	OIte
	OUlt
	OUle
	OSlt
	OSle
	OAdd
	OSub
	OMul
	OUDiv
	OURem
	OSDiv
	OSRem
	OBAnd
	OBOr
	OBXor
	OBNot
	ONeg
	OShl
	OLShr
	OAShr
	OConcat
	OExtract // k = hi<<8|lo
	OZExt    // result width w
	OSExt
)

var opNames = map[Op]string{
	ONot: "not", OAnd: "and", OOr: "or", OEq: "=", OIte: "ite", OUlt: "bvult", OUle: "bvule", OSlt: "bvslt", OSle: "bvsle",
	OAdd: "bvadd", OSub: "bvsub", OMul: "bvmul", OUDiv: "bvudiv", OURem: "bvurem", OSDiv: "bvsdiv", OSRem: "bvsrem",
	OBAnd: "bvand", OBOr: "bvor", OBXor: "bvxor", OBNot: "bvnot", ONeg: "bvneg", OShl: "bvshl", OLShr: "bvlshr", OAShr: "bvashr",
	OConcat: "concat",
}

// Term is an immutable SMT term. W is the width in bits (0 = Bool).
type Term struct {
	Op   Op
	W    uint8
	K    uint64
	A    [3]*Term
	Name string
	id   int64
}

type tkey struct {
	op         Op
	w          uint8
	k          uint64
	a0, a1, a2 int64
	c0, c1, c2 uint64
	name       string
}

const nShards = 64

var (
	shards  [nShards]map[tkey]*Term
	shardMu [nShards]sync.Mutex
	idMu    sync.Mutex
	nextID  int64 = 1
	smallC  [65][256]*Term
	bTrue         = &Term{Op: OConst, W: 0, K: 1}
	bFalse        = &Term{Op: OConst, W: 0, K: 0}
)

func init() {
	for i := range shards {
		shards[i] = map[tkey]*Term{}
	}
	for _, w := range []int{1, 8, 16, 32, 64} {
		for v := 0; v < 256; v++ {
			smallC[w][v] = &Term{Op: OConst, W: uint8(w), K: uint64(v) & mask(uint8(w))}
		}
	}
}

func mask(w uint8) uint64 {
	if w >= 64 {
		return ^uint64(0)
	}
	return (uint64(1) << w) - 1
}

// C makes a bit-vector constant.
func C(w uint8, v uint64) *Term {
	v &= mask(w)
	if v < 256 && smallC[w][0] != nil {
		return smallC[w][v]
	}
	return &Term{Op: OConst, W: w, K: v}
}

// B makes a bool constant.
func B(b bool) *Term {
	if b {
		return bTrue
	}
	return bFalse
}

func (t *Term) IsConst() bool { return t.Op == OConst }
func (t *Term) IsTrue() bool  { return t.Op == OConst && t.W == 0 && t.K == 1 }
func (t *Term) IsFalse() bool { return t.Op == OConst && t.W == 0 && t.K == 0 }

func argKey(t *Term) (int64, uint64) {
	if t == nil {
		return 0, 0
	}
	if t.Op == OConst {
		return -int64(t.W) - 1, t.K
	}
	return t.id, 0
}

func mk(op Op, w uint8, k uint64, name string, a ...*Term) *Term {
	var key tkey
	key.op, key.w, key.k, key.name = op, w, k, name
	var arr [3]*Term
	copy(arr[:], a)
	key.a0, key.c0 = argKey(arr[0])
	key.a1, key.c1 = argKey(arr[1])
	key.a2, key.c2 = argKey(arr[2])
	h := uint64(op)*1000003 ^ uint64(key.a0)*31 ^ uint64(key.a1)*131 ^ uint64(key.a2)*1031 ^ key.k ^ key.c0*7 ^ key.c1*13 ^ uint64(len(name))
	for i := 0; i < len(name); i++ {
		h = h*33 + uint64(name[i])
	}
	sh := h % nShards
	shardMu[sh].Lock()
	if t, ok := shards[sh][key]; ok {
		shardMu[sh].Unlock()
		return t
	}
	idMu.Lock()
	id := nextID
	nextID++
	idMu.Unlock()
	t := &Term{Op: op, W: w, K: k, A: arr, Name: name, id: id}
	shards[sh][key] = t
	shardMu[sh].Unlock()
	return t
}

// Var makes a named variable (w==0: Bool).
func Var(name string, w uint8) *Term { return mk(OVar, w, 0, name) }

func same(a, b *Term) bool {
	if a == b {
		return true
	}
	return a.Op == OConst && b.Op == OConst && a.W == b.W && a.K == b.K
}

// ---- bool ops ----

func Not(a *Term) *Term {
	if a.Op == OConst {
		return B(a.K == 0)
	}
	if a.Op == ONot {
		return a.A[0]
	}
	return mk(ONot, 0, 0, "", a)
}

func And(a, b *Term) *Term {
	if a.IsFalse() || b.IsFalse() {
		return bFalse
	}
	if a.IsTrue() {
		return b
	}
	if b.IsTrue() {
		return a
	}
	if a == b {
		return a
	}
	return mk(OAnd, 0, 0, "", a, b)
}

func Or(a, b *Term) *Term {
	if a.IsTrue() || b.IsTrue() {
		return bTrue
	}
	if a.IsFalse() {
		return b
	}
	if b.IsFalse() {
		return a
	}
	if a == b {
		return a
	}
	return mk(OOr, 0, 0, "", a, b)
}

func Eq(a, b *Term) *Term {
	if a.W != b.W {
		panic(fmt.Sprintf("Eq width mismatch %d %d", a.W, b.W))
	}
	if same(a, b) {
		return bTrue
	}
	if a.Op == OConst && b.Op == OConst {
		return B(a.K == b.K)
	}
	if a.W == 0 {
		if a.Op == OConst {
			a, b = b, a
		}
		if b.IsTrue() {
			return a
		}
		if b.IsFalse() {
			return Not(a)
		}
	}
	// ite(c, k1, k2) == k  with constants
	if b.Op == OConst && a.Op == OIte && a.A[1].Op == OConst && a.A[2].Op == OConst {
		t1, t2 := a.A[1].K == b.K, a.A[2].K == b.K
		switch {
		case t1 && t2:
			return bTrue
		case t1:
			return a.A[0]
		case t2:
			return Not(a.A[0])
		default:
			return bFalse
		}
	}
	if a.Op == OConst && b.Op == OIte {
		return Eq(b, a)
	}
	// zext(x)==const
	if b.Op == OConst && a.Op == OZExt {
		x := a.A[0]
		if b.K&^mask(x.W) != 0 {
			return bFalse
		}
		return Eq(x, C(x.W, b.K))
	}
	if a.Op == OConst && b.Op == OZExt {
		return Eq(b, a)
	}
	if a.Op == OConst {
		a, b = b, a
	}
	return mk(OEq, 0, 0, "", a, b)
}

func Ite(c, a, b *Term) *Term {
	if c.IsTrue() {
		return a
	}
	if c.IsFalse() {
		return b
	}
	if same(a, b) {
		return a
	}
	if a.W == 0 {
		if a.IsTrue() && b.IsFalse() {
			return c
		}
		if a.IsFalse() && b.IsTrue() {
			return Not(c)
		}
	}
	return mk(OIte, a.W, 0, "", c, a, b)
}

func sx64(w uint8, v uint64) int64 {
	if w >= 64 {
		return int64(v)
	}
	s := 64 - w
	return int64(v<<s) >> s
}

func Cmp(op Op, a, b *Term) *Term {
	if a.W != b.W {
		panic(fmt.Sprintf("Cmp width mismatch %d %d", a.W, b.W))
	}
	if a.Op == OConst && b.Op == OConst {
		switch op {
		case OUlt:
			return B(a.K < b.K)
		case OUle:
			return B(a.K <= b.K)
		case OSlt:
			return B(sx64(a.W, a.K) < sx64(b.W, b.K))
		case OSle:
			return B(sx64(a.W, a.K) <= sx64(b.W, b.K))
		}
	}
	if same(a, b) {
		return B(op == OUle || op == OSle)
	}
	if op == OUlt && b.Op == OConst && b.K == 0 {
		return bFalse
	}
	if op == OUle && a.Op == OConst && a.K == 0 {
		return bTrue
	}
	// zext(x) <u const  where const > max(x)
	if (op == OUlt || op == OUle) && a.Op == OZExt && b.Op == OConst {
		mx := mask(a.A[0].W)
		if (op == OUlt && b.K > mx) || (op == OUle && b.K >= mx) {
			return bTrue
		}
	}
	return mk(op, 0, 0, "", a, b)
}

// ---- bit-vector ops ----

func Bin(op Op, a, b *Term) *Term {
	if a.W != b.W {
		panic(fmt.Sprintf("Bin %s width mismatch %d %d", opNames[op], a.W, b.W))
	}
	w := a.W
	if a.Op == OConst && b.Op == OConst {
		x, y := a.K, b.K
		var r uint64
		switch op {
		case OAdd:
			r = x + y
		case OSub:
			r = x - y
		case OMul:
			r = x * y
		case OUDiv:
			if y == 0 {
				r = mask(w)
			} else {
				r = x / y
			}
		case OURem:
			if y == 0 {
				r = x
			} else {
				r = x % y
			}
		case OSDiv:
			sxv, syv := sx64(w, x), sx64(w, y)
			if syv == 0 {
				if sxv < 0 {
					r = 1
				} else {
					r = mask(w)
				}
			} else if syv == -1 {
				r = uint64(-sxv)
			} else {
				r = uint64(sxv / syv)
			}
		case OSRem:
			sxv, syv := sx64(w, x), sx64(w, y)
			if syv == 0 {
				r = x
			} else if syv == -1 {
				r = 0
			} else {
				r = uint64(sxv % syv)
			}
		case OBAnd:
			r = x & y
		case OBOr:
			r = x | y
		case OBXor:
			r = x ^ y
		case OShl:
			if y >= uint64(w) {
				r = 0
			} else {
				r = x << y
			}
		case OLShr:
			if y >= uint64(w) {
				r = 0
			} else {
				r = x >> y
			}
		case OAShr:
			s := sx64(w, x)
			if y >= uint64(w) {
				y = uint64(w) - 1
			}
			r = uint64(s >> y)
		default:
			panic("Bin: bad op")
		}
		return C(w, r)
	}
	// identities
	switch op {
	case OAdd:
		if a.Op == OConst && a.K == 0 {
			return b
		}
		if b.Op == OConst && b.K == 0 {
			return a
		}
	case OSub:
		if b.Op == OConst && b.K == 0 {
			return a
		}
		if a == b {
			return C(w, 0)
		}
	case OMul:
		if a.Op == OConst && a.K == 0 || b.Op == OConst && b.K == 0 {
			return C(w, 0)
		}
		if a.Op == OConst && a.K == 1 {
			return b
		}
		if b.Op == OConst && b.K == 1 {
			return a
		}
	case OBAnd:
		if a.Op == OConst && a.K == 0 || b.Op == OConst && b.K == 0 {
			return C(w, 0)
		}
		// (x >> c) & 1  ->  zext(extract(x,c,c))
		if b.Op == OConst && b.K == 1 && a.Op == OLShr && a.A[1].Op == OConst && a.A[1].K < uint64(w) {
			c := uint8(a.A[1].K)
			return ZExt(Extract(a.A[0], c, c), w)
		}
		if b.Op == OConst && b.K == 1 && w > 1 {
			return ZExt(Extract(a, 0, 0), w)
		}
		if a.Op == OConst && a.K == mask(w) {
			return b
		}
		if b.Op == OConst && b.K == mask(w) {
			return a
		}
		if a == b {
			return a
		}
	case OBOr:
		if a.Op == OConst && a.K == 0 {
			return b
		}
		if b.Op == OConst && b.K == 0 {
			return a
		}
		if a == b {
			return a
		}
	case OBXor:
		if a.Op == OConst && a.K == 0 {
			return b
		}
		if b.Op == OConst && b.K == 0 {
			return a
		}
		if a == b {
			return C(w, 0)
		}
	case OShl, OLShr, OAShr:
		if b.Op == OConst && b.K == 0 {
			return a
		}
		if b.Op == OConst && b.K >= uint64(w) && op != OAShr {
			return C(w, 0)
		}
	case OUDiv:
		if b.Op == OConst && b.K == 1 {
			return a
		}
	}
	return mk(op, w, 0, "", a, b)
}

func BNot(a *Term) *Term {
	if a.Op == OConst {
		return C(a.W, ^a.K)
	}
	if a.Op == OBNot {
		return a.A[0]
	}
	return mk(OBNot, a.W, 0, "", a)
}

func Neg(a *Term) *Term {
	if a.Op == OConst {
		return C(a.W, -a.K)
	}
	return mk(ONeg, a.W, 0, "", a)
}

// Extract bits hi..lo (inclusive).
func Extract(a *Term, hi, lo uint8) *Term {
	w := hi - lo + 1
	if lo == 0 && w == a.W {
		return a
	}
	if a.Op == OConst {
		return C(w, a.K>>lo)
	}
	if a.Op == OZExt || a.Op == OSExt {
		x := a.A[0]
		if hi < x.W {
			return Extract(x, hi, lo)
		}
		if a.Op == OZExt && lo >= x.W {
			return C(w, 0)
		}
	}
	if a.Op == OConcat {
		lw := a.A[1].W
		if hi < lw {
			return Extract(a.A[1], hi, lo)
		}
		if lo >= lw {
			return Extract(a.A[0], hi-lw, lo-lw)
		}
	}
	if a.Op == OExtract {
		ilo := uint8(a.K & 0xff)
		return Extract(a.A[0], hi+ilo, lo+ilo)
	}
	return mk(OExtract, w, uint64(hi)<<8|uint64(lo), "", a)
}

// Concat: a is the high part.
func Concat(a, b *Term) *Term {
	w := a.W + b.W
	if a.Op == OConst && b.Op == OConst {
		return C(w, a.K<<b.W|b.K)
	}
	// extract(x,hi,m+1) ++ extract(x,m,lo) = extract(x,hi,lo)
	if a.Op == OExtract && b.Op == OExtract && a.A[0] == b.A[0] {
		ahi, alo := uint8(a.K>>8), uint8(a.K&0xff)
		bhi, blo := uint8(b.K>>8), uint8(b.K&0xff)
		if alo == bhi+1 {
			return Extract(a.A[0], ahi, blo)
		}
	}
	if a.Op == OConst && a.K == 0 {
		return ZExt(b, w)
	}
	return mk(OConcat, w, 0, "", a, b)
}

func ZExt(a *Term, w uint8) *Term {
	if w == a.W {
		return a
	}
	if w < a.W {
		return Extract(a, w-1, 0)
	}
	if a.Op == OConst {
		return C(w, a.K)
	}
	if a.Op == OZExt {
		return ZExt(a.A[0], w)
	}
	return mk(OZExt, w, 0, "", a)
}

func SExt(a *Term, w uint8) *Term {
	if w == a.W {
		return a
	}
	if w < a.W {
		return Extract(a, w-1, 0)
	}
	if a.Op == OConst {
		return C(w, uint64(sx64(a.W, a.K)))
	}
	return mk(OSExt, w, 0, "", a)
}

// BoolToBV converts Bool to a 1/0 bit-vector of width w.
func BoolToBV(b *Term, w uint8) *Term {
	return Ite(b, C(w, 1), C(w, 0))
}

// ---- evaluation under a model ----

// Model maps variable names to values.
type Model map[string]uint64

// Eval evaluates t under m (missing variables are 0).
func Eval(t *Term, m Model, memo map[*Term]uint64) uint64 {
	if t.Op == OConst {
		return t.K
	}
	if v, ok := memo[t]; ok {
		return v
	}
	var r uint64
	ev := func(i int) uint64 { return Eval(t.A[i], m, memo) }
	b2u := func(b bool) uint64 {
		if b {
			return 1
		}
		return 0
	}
	switch t.Op {
	case OVar:
		r = m[t.Name] & mask1(t.W)
	case ONot:
		r = 1 - ev(0)
	case OAnd:
		r = ev(0) & ev(1)
	case OOr:
		r = ev(0) | ev(1)
	case OEq:
		r = b2u(ev(0) == ev(1))
	case OIte:
		if ev(0) != 0 {
			r = ev(1)
		} else {
			r = ev(2)
		}
	case OUlt, OUle, OSlt, OSle:
		x := Cmp(t.Op, C(t.A[0].W, ev(0)), C(t.A[1].W, ev(1)))
		r = x.K
	case OAdd, OSub, OMul, OUDiv, OURem, OSDiv, OSRem, OBAnd, OBOr, OBXor, OShl, OLShr, OAShr:
		r = Bin(t.Op, C(t.W, ev(0)), C(t.W, ev(1))).K
	case OBNot:
		r = ^ev(0) & mask(t.W)
	case ONeg:
		r = -ev(0) & mask(t.W)
	case OConcat:
		r = ev(0)<<t.A[1].W | ev(1)
	case OExtract:
		lo := uint8(t.K & 0xff)
		r = (ev(0) >> lo) & mask(t.W)
	case OZExt:
		r = ev(0)
	case OSExt:
		r = uint64(sx64(t.A[0].W, ev(0))) & mask(t.W)
	default:
		panic("Eval: bad op")
	}
	memo[t] = r
	return r
}

func mask1(w uint8) uint64 {
	if w == 0 {
		return 1
	}
	return mask(w)
}

// ---- printing ----

func sortOf(w uint8) string {
	if w == 0 {
		return "Bool"
	}
	return fmt.Sprintf("(_ BitVec %d)", w)
}

func constStr(t *Term) string {
	if t.W == 0 {
		if t.K != 0 {
			return "true"
		}
		return "false"
	}
	if t.W%4 == 0 {
		return fmt.Sprintf("#x%0*x", int(t.W/4), t.K)
	}
	return fmt.Sprintf("#b%0*b", int(t.W), t.K)
}

// Vars collects the variables of t into set.
func Vars(t *Term, set map[*Term]bool, seen map[*Term]bool) {
	if t == nil || t.Op == OConst || seen[t] {
		return
	}
	seen[t] = true
	if t.Op == OVar {
		set[t] = true
		return
	}
	for _, a := range t.A {
		if a != nil {
			Vars(a, set, seen)
		}
	}
}

// SMT prints t as SMT-LIB2 with let-sharing of repeated subterms.
func SMT(t *Term) string {
	// count references
	refs := map[*Term]int{}
	var order []*Term
	var walk func(x *Term)
	walk = func(x *Term) {
		if x.Op == OConst || x.Op == OVar {
			return
		}
		refs[x]++
		if refs[x] > 1 {
			return
		}
		for _, a := range x.A {
			if a != nil {
				walk(a)
			}
		}
		order = append(order, x) // post-order
	}
	walk(t)
	names := map[*Term]string{}
	var pr func(x *Term, top bool) string
	pr = func(x *Term, top bool) string {
		if x.Op == OConst {
			return constStr(x)
		}
		if x.Op == OVar {
			return "|" + x.Name + "|"
		}
		if !top {
			if n, ok := names[x]; ok {
				return n
			}
		}
		var sb strings.Builder
		switch x.Op {
		case OExtract:
			fmt.Fprintf(&sb, "((_ extract %d %d) %s)", x.K>>8, x.K&0xff, pr(x.A[0], false))
		case OZExt:
			fmt.Fprintf(&sb, "((_ zero_extend %d) %s)", x.W-x.A[0].W, pr(x.A[0], false))
		case OSExt:
			fmt.Fprintf(&sb, "((_ sign_extend %d) %s)", x.W-x.A[0].W, pr(x.A[0], false))
		default:
			sb.WriteString("(")
			sb.WriteString(opNames[x.Op])
			for _, a := range x.A {
				if a != nil {
					sb.WriteString(" ")
					sb.WriteString(pr(a, false))
				}
			}
			sb.WriteString(")")
		}
		return sb.String()
	}
	var sb strings.Builder
	nlet := 0
	for _, x := range order {
		if refs[x] > 1 && x != t {
			def := pr(x, true)
			n := fmt.Sprintf("?t%d", x.id)
			fmt.Fprintf(&sb, "(let ((%s %s)) ", n, def)
			names[x] = n
			nlet++
		}
	}
	sb.WriteString(pr(t, true))
	sb.WriteString(strings.Repeat(")", nlet))
	return sb.String()
}

func (t *Term) String() string { return SMT(t) }

// PopCount64 builds the naive popcount of a 64-bit term as a 64-bit sum.
func PopCount64(x *Term) *Term {
	if x.Op == OConst {
		return C(64, uint64(bits.OnesCount64(x.K)))
	}
	// naive definition: sum of the 64 bits
	r := C(64, 0)
	for i := 0; i < 64; i++ {
		r = Bin(OAdd, r, BoolToBV(Eq(Extract(x, uint8(i), uint8(i)), C(1, 1)), 64))
	}
	return r
}


// Subst replaces variables by constants and re-simplifies.
func Subst(t *Term, pin map[string]uint64, memo map[*Term]*Term) *Term {
	if t.Op == OConst {
		return t
	}
	if r, ok := memo[t]; ok {
		return r
	}
	var r *Term
	if t.Op == OVar {
		if v, ok := pin[t.Name]; ok {
			if t.W == 0 {
				r = B(v != 0)
			} else {
				r = C(t.W, v)
			}
		} else {
			r = t
		}
		memo[t] = r
		return r
	}
	var a [3]*Term
	changed := false
	for i, x := range t.A {
		if x != nil {
			a[i] = Subst(x, pin, memo)
			if a[i] != x {
				changed = true
			}
		}
	}
	if !changed {
		memo[t] = t
		return t
	}
	switch t.Op {
	case ONot:
		r = Not(a[0])
	case OAnd:
		r = And(a[0], a[1])
	case OOr:
		r = Or(a[0], a[1])
	case OEq:
		r = Eq(a[0], a[1])
	case OIte:
		r = Ite(a[0], a[1], a[2])
	case OUlt, OUle, OSlt, OSle:
		r = Cmp(t.Op, a[0], a[1])
	case OBNot:
		r = BNot(a[0])
	case ONeg:
		r = Neg(a[0])
	case OConcat:
		r = Concat(a[0], a[1])
	case OExtract:
		r = Extract(a[0], uint8(t.K>>8), uint8(t.K&0xff))
	case OZExt:
		r = ZExt(a[0], t.W)
	case OSExt:
		r = SExt(a[0], t.W)
	default:
		r = Bin(t.Op, a[0], a[1])
	}
	memo[t] = r
	return r
}
