package sx

import (
	"crypto/sha256"
	"fmt"
	"go/constant"
	"go/types"
	"math"
	"os"
	"path/filepath"
	"sort"
	"strings"
	"sync"

	"golang.org/x/tools/go/packages"
	"golang.org/x/tools/go/ssa"
	"golang.org/x/tools/go/ssa/ssautil"
)

const ModPath = "github.com/mlange-42/arche"

// FnInfo is per-function precomputed data.
type FnInfo struct {
	fn     *ssa.Function
	slots  map[ssa.Value]int
	nslots int
	pdOnce  sync.Once
	ipd     []int
	mergeOK map[int]bool
	mergeMu sync.Mutex
}

// Program is a loaded, SSA-built view of /repo plus harness overlay.
type Program struct {
	Prog     *ssa.Program
	Pkgs     map[string]*ssa.Package
	Repo     string
	Tags     string
	fns      sync.Map // *ssa.Function -> *FnInfo
	consts   sync.Map // *ssa.Const -> Value
	methods  sync.Map // methodKey -> *ssa.Function
	pure     sync.Map // *ssa.Function -> bool
	metas    sync.Map // *ssa.Function -> *fnMetaT
	globals  map[*ssa.Global]int
	init     *State
	initMu   sync.Mutex
	SrcHash  string
	LoadSecs float64
	FuncsEncoded sync.Map // name -> instruction count
}

type methodKey struct {
	t    types.Type
	name string
}

// Load loads the arche packages from repo with the harness overlay directory
// (harnessDir/<pkg>/*.go are mapped to repo/<pkg>/zz_verif_*.go).
func Load(repo, harnessDir string, tags string, side string) (*Program, error) {
	overlay := map[string][]byte{}
	pkgs := []string{"ecs", "filter", "listener", "generic"}
	for _, p := range pkgs {
		files, _ := filepath.Glob(filepath.Join(harnessDir, p, "*.go"))
		sort.Strings(files)
		for _, f := range files {
			base := filepath.Base(f)
			// rt_native files are only for native replay
			if strings.HasSuffix(base, "_native.go") && side == "engine" {
				continue
			}
			if strings.HasSuffix(base, "_sym.go") && side == "native" {
				continue
			}
			data, err := os.ReadFile(f)
			if err != nil {
				return nil, err
			}
			overlay[filepath.Join(repo, p, "zz_verif_"+base)] = data
		}
		if len(files) > 0 {
			tn := "rt_sym.go.tmpl"
			if side == "native" {
				tn = "rt_native.go.tmpl"
			}
			data, err := os.ReadFile(filepath.Join(harnessDir, "rt", tn))
			if err != nil {
				return nil, err
			}
			data = []byte(strings.Replace(string(data), "package PKG", "package "+p, 1))
			overlay[filepath.Join(repo, p, "zz_verif_rt.go")] = data
		}
	}
	cfg := &packages.Config{
		Mode:    packages.LoadAllSyntax,
		Dir:     repo,
		Overlay: overlay,
		Env:     append(os.Environ(), "GOFLAGS=-mod=mod", "GOWORK=off", "GOPROXY=off", "GOSUMDB=off", "GOTOOLCHAIN=local"),
	}
	if tags != "" {
		cfg.BuildFlags = []string{"-tags=" + tags}
	}
	var pats []string
	for _, p := range pkgs {
		pats = append(pats, "./"+p)
	}
	initial, err := packages.Load(cfg, pats...)
	if err != nil {
		return nil, err
	}
	var errs []string
	packages.Visit(initial, nil, func(p *packages.Package) {
		for _, e := range p.Errors {
			errs = append(errs, e.Error())
		}
	})
	if len(errs) > 0 {
		return nil, fmt.Errorf("package errors:\n%s", strings.Join(errs, "\n"))
	}
	prog, spkgs := ssautil.AllPackages(initial, ssa.InstantiateGenerics)
	_ = spkgs
	P := &Program{Prog: prog, Pkgs: map[string]*ssa.Package{}, Repo: repo, Tags: tags, globals: map[*ssa.Global]int{}}
	h := sha256.New()
	var arche []*ssa.Package
	for _, sp := range prog.AllPackages() {
		path := sp.Pkg.Path()
		if path == ModPath || strings.HasPrefix(path, ModPath+"/") {
			arche = append(arche, sp)
			P.Pkgs[strings.TrimPrefix(path, ModPath+"/")] = sp
		}
	}
	sort.Slice(arche, func(i, j int) bool { return arche[i].Pkg.Path() < arche[j].Pkg.Path() })
	for _, sp := range arche {
		sp.Build()
	}
	// source hash of the repo's Go files actually loaded
	packages.Visit(initial, nil, func(p *packages.Package) {
		if p.PkgPath == ModPath || strings.HasPrefix(p.PkgPath, ModPath+"/") {
			for _, f := range p.CompiledGoFiles {
				if strings.Contains(f, "zz_verif_") {
					continue
				}
				if d, err := os.ReadFile(f); err == nil {
					fmt.Fprintf(h, "%s\n", f)
					h.Write(d)
				}
			}
		}
	})
	P.SrcHash = fmt.Sprintf("%x", h.Sum(nil))[:16]
	return P, nil
}

// Func finds a package-level function "pkg.Name" (pkg relative to the module, e.g. "ecs").
func (p *Program) Func(pkg, name string) *ssa.Function {
	sp := p.Pkgs[pkg]
	if sp == nil {
		return nil
	}
	return sp.Func(name)
}

func (p *Program) info(fn *ssa.Function) *FnInfo {
	if v, ok := p.fns.Load(fn); ok {
		return v.(*FnInfo)
	}
	fi := &FnInfo{fn: fn, slots: map[ssa.Value]int{}, mergeOK: map[int]bool{}}
	n := 0
	for _, v := range fn.Params {
		fi.slots[v] = n
		n++
	}
	for _, v := range fn.FreeVars {
		fi.slots[v] = n
		n++
	}
	ninstr := 0
	for _, b := range fn.Blocks {
		for _, ins := range b.Instrs {
			ninstr++
			if v, ok := ins.(ssa.Value); ok {
				fi.slots[v] = n
				n++
			}
		}
	}
	fi.nslots = n
	act, _ := p.fns.LoadOrStore(fn, fi)
	p.FuncsEncoded.LoadOrStore(fn.String(), ninstr)
	return act.(*FnInfo)
}

func (p *Program) constVal(c *ssa.Const) Value {
	if v, ok := p.consts.Load(c); ok {
		return v
	}
	v := makeConst(c)
	p.consts.Store(c, v)
	return v
}

func makeConst(c *ssa.Const) Value {
	t := c.Type()
	if c.Value == nil {
		return zeroValue(t)
	}
	switch u := t.Underlying().(type) {
	case *types.Basic:
		switch {
		case u.Info()&types.IsBoolean != 0:
			return B(constant.BoolVal(c.Value))
		case u.Info()&types.IsString != 0:
			return Str(constant.StringVal(c.Value))
		case u.Info()&types.IsInteger != 0:
			w := uint8(sizes.Sizeof(t) * 8)
			if v, ok := constant.Uint64Val(constant.ToInt(c.Value)); ok {
				return C(w, v)
			}
			v, _ := constant.Int64Val(constant.ToInt(c.Value))
			return C(w, uint64(v))
		case u.Info()&types.IsFloat != 0:
			f, _ := constant.Float64Val(c.Value)
			if u.Kind() == types.Float32 {
				return C(32, uint64(math.Float32bits(float32(f))))
			}
			return C(64, math.Float64bits(f))
		}
	}
	panic("makeConst: unsupported constant type " + t.String())
}

func (p *Program) lookupMethod(t types.Type, m *types.Func) *ssa.Function {
	k := methodKey{t, m.Name()}
	if v, ok := p.methods.Load(k); ok {
		return v.(*ssa.Function)
	}
	ms := p.Prog.MethodSets.MethodSet(t)
	sel := ms.Lookup(m.Pkg(), m.Name())
	if sel == nil {
		return nil
	}
	fn := p.Prog.MethodValue(sel)
	p.methods.Store(k, fn)
	return fn
}

// lookupMethodByName finds an exported method in the method set of t.
func (p *Program) lookupMethodByName(t types.Type, name string) *ssa.Function {
	if t == nil {
		return nil
	}
	sel := p.Prog.MethodSets.MethodSet(t).Lookup(nil, name)
	if sel == nil {
		return nil
	}
	return p.Prog.MethodValue(sel)
}

type fnMetaT struct {
	intr Intrinsic
}

func (p *Program) fnMeta(fn *ssa.Function) *fnMetaT {
	if v, ok := p.metas.Load(fn); ok {
		return v.(*fnMetaT)
	}
	m := &fnMetaT{}
	name := fn.String()
	if in, ok := intrinsics[name]; ok {
		m.intr = in
	} else if i := strings.LastIndex(name, "."); i >= 0 && strings.HasPrefix(name[i+1:], "v") && strings.HasPrefix(name, ModPath) {
		if in, ok := harnessIntrinsics[name[i+1:]]; ok {
			m.intr = in
		}
	}
	p.metas.Store(fn, m)
	return m
}

// LibraryFuncs lists every function with a body in the arche packages whose
// source file is not part of the harness overlay.
func (p *Program) LibraryFuncs() []string {
	var out []string
	for fn := range ssautil.AllFunctions(p.Prog) {
		if fn.Blocks == nil || fn.Pkg == nil || !strings.HasPrefix(fn.Pkg.Pkg.Path(), ModPath) {
			continue
		}
		if fn.Synthetic != "" {
			continue
		}
		pos := p.Prog.Fset.Position(fn.Pos())
		if strings.Contains(pos.Filename, "zz_verif") || strings.HasSuffix(pos.Filename, "_test.go") {
			continue
		}
		n := 0
		for _, b := range fn.Blocks {
			n += len(b.Instrs)
		}
		out = append(out, fmt.Sprintf("%s\t%d\t%s", strings.TrimPrefix(fn.String(), ModPath+"/"), n, filepath.Base(pos.Filename)))
	}
	sort.Strings(out)
	return out
}
