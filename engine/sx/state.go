package sx

import (
	"fmt"
	"go/types"
	"sync"
	"sync/atomic"

	"golang.org/x/tools/go/ssa"
)

func newRW() *sync.RWMutex { return &sync.RWMutex{} }

// Status of a path.
type Status uint8

const (
	Running Status = iota
	Done           // returned from the entry function
	Killed         // infeasible assumption
	Panicked       // uncaught Go panic
	Failed         // engine error (unsupported / budget)
)

// Frame is an activation record.
type Frame struct {
	fi      *FnInfo
	regs    []Value
	blk     *ssa.BasicBlock
	prev    *ssa.BasicBlock
	ip      int
	locals  []int
	catch   bool // vCatch boundary: the callee frame above it is the protected call
	defers  []deferred
	callInstr ssa.Instruction // call instruction in THIS frame awaiting a result
	panicking bool
	noAdvance bool // frame of a deferred call: its return does not advance the caller
	pureEval  bool
	symGuard  bool
	depth     int
}

type deferred struct {
	fn   Value
	args []Value
}

// Sym records a symbolic input created on a path.
type Sym struct {
	Name string
	W    uint8
}

// LogEntry is one conformance/observation log line.
type LogEntry struct {
	Label string
	T     *Term
	S     string
}

type logList struct {
	e    LogEntry
	prev *logList
	n    int
}

type symList struct {
	s    Sym
	prev *symList
}

// State is one path of the exploration.
type State struct {
	run    *Run
	id     int64
	blocks []*Block
	frames []*Frame
	pc     *PC
	model  Model
	memo   map[*Term]uint64
	symCnt map[string]int
	syms   *symList
	log    *logList
	steps  int64
	nAlloc int64
	status Status
	errMsg string
	panicV Value
	ret    Value
	choices *choiceList
	fp     *Footprint
	noFree bool
	w        *Worker
	pend     *Term
	pendName string
	spec     bool
	mapFixed bool // C13: map ranges follow insertion order (harness switch vMapOrderFixed)
	gcCheck  bool // C14: check that pointer-carrying cells only live in pointer-typed memory
	recovered bool
	pinned   map[string]uint64 // variables fixed by concretization (copy-on-write)
}

type choiceList struct {
	desc string
	prev *choiceList
}

// Footprint records block reads/writes for isolation checks.
type Footprint struct {
	Reads, Writes map[int]bool
}

var stateIDs int64

func newStateID() int64 { return atomic.AddInt64(&stateIDs, 1) }

func (st *State) noteRead(blk int) {}
func (st *State) noteWrite(blk int) {
	if st.fp != nil {
		st.fp.Writes[blk] = true
	}
}

// clone makes an independent copy; both st and the copy get fresh ids so that
// shared blocks are copied on write by either.
func (st *State) clone() *State {
	n := *st
	n.id = newStateID()
	st.id = newStateID()
	n.blocks = append([]*Block(nil), st.blocks...)
	n.frames = make([]*Frame, len(st.frames))
	for i, f := range st.frames {
		nf := *f
		nf.regs = append([]Value(nil), f.regs...)
		nf.locals = append([]int(nil), f.locals...)
		nf.defers = append([]deferred(nil), f.defers...)
		n.frames[i] = &nf
	}
	n.symCnt = make(map[string]int, len(st.symCnt))
	for k, v := range st.symCnt {
		n.symCnt[k] = v
	}
	n.memo = nil
	if st.fp != nil {
		f := &Footprint{Reads: map[int]bool{}, Writes: map[int]bool{}}
		for k := range st.fp.Reads {
			f.Reads[k] = true
		}
		for k := range st.fp.Writes {
			f.Writes[k] = true
		}
		n.fp = f
	}
	return &n
}

func (st *State) fail(msg string) {
	if st.spec {
		panic(specAbort{})
	}
	if st.status == Running {
		st.status = Failed
		st.errMsg = msg + st.where()
	}
}

func (st *State) where() string {
	s := ""
	for i := len(st.frames) - 1; i >= 0 && i >= len(st.frames)-6; i-- {
		f := st.frames[i]
		pos := ""
		if f.blk != nil && f.ip < len(f.blk.Instrs) {
			pos = st.run.P.Prog.Fset.Position(f.blk.Instrs[f.ip].Pos()).String()
		}
		s += fmt.Sprintf("\n    at %s %s", f.fi.fn.String(), pos)
	}
	return s
}

// memViolation reports an access the real program would perform through
// unsafe without a Go-level panic (out of block, torn pointer ...).
func (st *State) memViolation(msg string) {
	if st.spec {
		panic(specAbort{})
	}
	if st.status != Running {
		return
	}
	st.run.report(st, Violation{Kind: "memory-safety", Label: msg})
	st.status = Failed
	st.errMsg = "memory-safety: " + msg + st.where()
	st.run.memEvents.Add(1)
}

// gcViolation: pointer-carrying data placed where the collector cannot see it.
func (st *State) gcViolation(msg string) {
	if st.status != Running || st.spec {
		return
	}
	st.run.report(st, Violation{Kind: "memory-safety", Label: "gc-safety: " + msg})
	st.run.memEvents.Add(1)
}

func (st *State) addSym(name string, w uint8) *Term {
	k := st.symCnt[name]
	st.symCnt[name] = k + 1
	full := fmt.Sprintf("%s#%d", name, k)
	st.syms = &symList{Sym{full, w}, st.syms}
	return Var(full, w)
}

func (st *State) addLog(e LogEntry) {
	n := 1
	if st.log != nil {
		n = st.log.n + 1
	}
	st.log = &logList{e, st.log, n}
}

func (st *State) evalModel(t *Term) uint64 {
	if t.Op == OConst {
		return t.K
	}
	if st.memo == nil {
		st.memo = map[*Term]uint64{}
	}
	return Eval(t, st.model, st.memo)
}

func (st *State) setModel(m Model) {
	st.model = m
	st.memo = nil
}

func (st *State) top() *Frame { return st.frames[len(st.frames)-1] }

// typeOfVal helper
func elemOfPtr(t types.Type) types.Type {
	return t.Underlying().(*types.Pointer).Elem()
}
