package sx

import (
	"bufio"
	"fmt"
	"io"
	"os/exec"
	"strconv"
	"strings"
	"time"
)

// PC is a persistent list of path-condition conjuncts.
type PC struct {
	T    *Term
	Prev *PC
	N    int
}

func (p *PC) Push(t *Term) *PC {
	n := 1
	if p != nil {
		n = p.N + 1
	}
	return &PC{T: t, Prev: p, N: n}
}

func (p *PC) Len() int {
	if p == nil {
		return 0
	}
	return p.N
}

func (p *PC) Slice() []*Term {
	out := make([]*Term, p.Len())
	for q := p; q != nil; q = q.Prev {
		out[q.N-1] = q.T
	}
	return out
}

// Result of a solver query.
type Result int

const (
	Unsat Result = iota
	Sat
	Unknown
)

func (r Result) String() string { return [...]string{"unsat", "sat", "unknown"}[r] }

// SolverStats aggregates query counts.
type SolverStats struct {
	Queries, Sat, Unsat, Unknown int
	Time                         time.Duration
	MaxQuery                     time.Duration
}

func (a *SolverStats) Add(b SolverStats) {
	a.Queries += b.Queries
	a.Sat += b.Sat
	a.Unsat += b.Unsat
	a.Unknown += b.Unknown
	a.Time += b.Time
	if b.MaxQuery > a.MaxQuery {
		a.MaxQuery = b.MaxQuery
	}
}

// Solver wraps one incremental SMT process.
type Solver struct {
	Kind     string // z3 | z3-new | cvc5
	cmd      *exec.Cmd
	in       io.WriteCloser
	out      *bufio.Reader
	top      *PC
	declared map[string]int // var -> level declared at
	levelVar [][]string     // vars declared per level
	Stats    SolverStats
	Err      string // first "(error" line seen
	Log      io.Writer
	timeout  int
}

// NewSolver starts a solver process. timeoutMs applies per check-sat.
func NewSolver(kind string, timeoutMs int) (*Solver, error) {
	var cmd *exec.Cmd
	switch kind {
	case "z3", "z3-new":
		cmd = exec.Command(kind, "-in", "-smt2")
	case "cvc5":
		cmd = exec.Command("cvc5", "--incremental", "--lang", "smt2", "--produce-models", fmt.Sprintf("--tlimit-per=%d", timeoutMs))
	default:
		return nil, fmt.Errorf("unknown solver %q", kind)
	}
	in, err := cmd.StdinPipe()
	if err != nil {
		return nil, err
	}
	outp, err := cmd.StdoutPipe()
	if err != nil {
		return nil, err
	}
	cmd.Stderr = cmd.Stdout
	if err := cmd.Start(); err != nil {
		return nil, err
	}
	s := &Solver{Kind: kind, cmd: cmd, in: in, out: bufio.NewReaderSize(outp, 1<<16), declared: map[string]int{}, levelVar: [][]string{nil}, timeout: timeoutMs}
	if kind == "cvc5" {
		s.send("(set-logic QF_BV)")
	} else {
		s.send("(set-option :produce-models true)")
		s.send(fmt.Sprintf("(set-option :timeout %d)", timeoutMs))
	}
	return s, nil
}

func (s *Solver) Close() {
	if s == nil || s.cmd == nil {
		return
	}
	s.in.Close()
	s.cmd.Process.Kill()
	s.cmd.Wait()
	s.cmd = nil
}

func (s *Solver) send(line string) {
	if s.Log != nil {
		fmt.Fprintln(s.Log, line)
	}
	io.WriteString(s.in, line)
	io.WriteString(s.in, "\n")
}

func (s *Solver) readLine() string {
	for {
		l, err := s.out.ReadString('\n')
		l = strings.TrimSpace(l)
		if err != nil && l == "" {
			if s.Err == "" {
				s.Err = "solver died: " + err.Error()
			}
			return "(error eof)"
		}
		if l == "" {
			continue
		}
		if strings.HasPrefix(l, "(error") {
			if s.Err == "" {
				s.Err = l
			}
		}
		return l
	}
}

func (s *Solver) readSexp() string {
	var sb strings.Builder
	depth := 0
	started := false
	for {
		l := s.readLine()
		sb.WriteString(l)
		sb.WriteString(" ")
		for _, c := range l {
			if c == '(' {
				depth++
				started = true
			} else if c == ')' {
				depth--
			}
		}
		if started && depth <= 0 {
			return sb.String()
		}
		if !started {
			return sb.String()
		}
	}
}

func (s *Solver) declareVars(t *Term) {
	set := map[*Term]bool{}
	Vars(t, set, map[*Term]bool{})
	lvl := len(s.levelVar) - 1
	for v := range set {
		if _, ok := s.declared[v.Name]; ok {
			continue
		}
		s.send(fmt.Sprintf("(declare-const |%s| %s)", v.Name, sortOf(v.W)))
		s.declared[v.Name] = lvl
		s.levelVar[lvl] = append(s.levelVar[lvl], v.Name)
	}
}

func (s *Solver) push(t *Term) {
	s.send("(push 1)")
	s.levelVar = append(s.levelVar, nil)
	if t != nil {
		s.declareVars(t)
		s.send("(assert " + SMT(t) + ")")
	}
}

func (s *Solver) pop(n int) {
	if n <= 0 {
		return
	}
	s.send(fmt.Sprintf("(pop %d)", n))
	for i := 0; i < n; i++ {
		last := s.levelVar[len(s.levelVar)-1]
		for _, v := range last {
			delete(s.declared, v)
		}
		s.levelVar = s.levelVar[:len(s.levelVar)-1]
	}
}

// SyncTo makes the solver's assertion stack equal to pc.
func (s *Solver) SyncTo(pc *PC) {
	if s.top == pc {
		return
	}
	a, b := s.top, pc
	for a.Len() > b.Len() {
		a = a.Prev
	}
	var pend []*Term
	for b.Len() > a.Len() {
		pend = append(pend, b.T)
		b = b.Prev
	}
	for a != b {
		a = a.Prev
		pend = append(pend, b.T)
		b = b.Prev
	}
	s.pop(s.top.Len() - a.Len())
	for i := len(pend) - 1; i >= 0; i-- {
		s.push(pend[i])
	}
	s.top = pc
}

// Check decides satisfiability of pc ∧ extra (extra may be nil). On Sat the
// model for all variables of pc and extra that the solver knows is returned.
func (s *Solver) Check(pc *PC, extra *Term, wantModel bool) (Result, Model) {
	s.SyncTo(pc)
	if extra != nil {
		s.push(extra)
	}
	t0 := time.Now()
	s.send("(check-sat)")
	ans := s.readLine()
	d := time.Since(t0)
	s.Stats.Queries++
	s.Stats.Time += d
	if d > s.Stats.MaxQuery {
		s.Stats.MaxQuery = d
	}
	var res Result
	switch ans {
	case "sat":
		res = Sat
		s.Stats.Sat++
	case "unsat":
		res = Unsat
		s.Stats.Unsat++
	default:
		res = Unknown
		s.Stats.Unknown++
		if s.Err == "" && ans != "unknown" && ans != "timeout" {
			s.Err = "unexpected solver answer: " + ans
		}
	}
	var m Model
	if res == Sat && wantModel {
		m = Model{}
		var names []string
		for v := range s.declared {
			names = append(names, v)
		}
		if len(names) > 0 {
			var sb strings.Builder
			sb.WriteString("(get-value (")
			for _, n := range names {
				sb.WriteString("|" + n + "| ")
			}
			sb.WriteString("))")
			s.send(sb.String())
			parseValues(s.readSexp(), m)
		}
	}
	if extra != nil {
		s.pop(1)
	}
	return res, m
}

// parseValues parses ((|a| #x01) (b true) ...) into m.
func parseValues(sx string, m Model) {
	i := 0
	n := len(sx)
	for i < n {
		// find "(" name value ")"
		for i < n && sx[i] != '(' {
			i++
		}
		if i >= n {
			return
		}
		i++
		for i < n && (sx[i] == ' ' || sx[i] == '(') {
			i++
		}
		// name
		var name string
		if i < n && sx[i] == '|' {
			j := strings.IndexByte(sx[i+1:], '|')
			if j < 0 {
				return
			}
			name = sx[i+1 : i+1+j]
			i = i + 1 + j + 1
		} else {
			j := i
			for j < n && sx[j] != ' ' && sx[j] != ')' {
				j++
			}
			name = sx[i:j]
			i = j
		}
		for i < n && sx[i] == ' ' {
			i++
		}
		j := i
		depth := 0
		for j < n {
			if sx[j] == '(' {
				depth++
			} else if sx[j] == ')' {
				if depth == 0 {
					break
				}
				depth--
			}
			j++
		}
		val := strings.TrimSpace(sx[i:j])
		i = j + 1
		if name == "" {
			continue
		}
		switch {
		case val == "true":
			m[name] = 1
		case val == "false":
			m[name] = 0
		case strings.HasPrefix(val, "#x"):
			v, _ := strconv.ParseUint(val[2:], 16, 64)
			m[name] = v
		case strings.HasPrefix(val, "#b"):
			v, _ := strconv.ParseUint(val[2:], 2, 64)
			m[name] = v
		case strings.HasPrefix(val, "(_ bv"):
			f := strings.Fields(val[5:])
			v, _ := strconv.ParseUint(f[0], 10, 64)
			m[name] = v
		}
	}
}

// OneShot decides a closed query (list of assertions) in a fresh process of the
// given solver kind; used for cross-checking final verdicts.
func OneShot(kind string, asserts []*Term, timeoutMs int) (Result, error) {
	s, err := NewSolver(kind, timeoutMs)
	if err != nil {
		return Unknown, err
	}
	defer s.Close()
	for _, a := range asserts {
		s.declareVars(a)
		s.send("(assert " + SMT(a) + ")")
	}
	r, _ := s.Check(nil, nil, false)
	if s.Err != "" {
		return Unknown, fmt.Errorf("%s", s.Err)
	}
	return r, nil
}
