package sx

import (
	"fmt"
	"go/types"
	"reflect"

	"golang.org/x/tools/go/ssa"
)

// Intrinsic implements a call natively. It must deliver a result to f.
type Intrinsic func(st *State, f *Frame, call *ssa.Call, args []Value)

var intrinsics map[string]Intrinsic
var harnessIntrinsics map[string]Intrinsic

// TierN is 0 for quick, 1 for thorough; harnesses read it through vTier().
var TierN int

func ret(st *State, f *Frame, v Value) { st.deliver(f, v) }

func rtypeIface(t types.Type) Iface { return Iface{T: rtypeMarker, V: RType{t}} }

func ifaceRType(st *State, v Value) types.Type {
	i, ok := v.(Iface)
	if !ok || i.T == nil {
		st.throwNilDeref()
	}
	rt, ok := i.V.(RType)
	if !ok {
		st.fail("reflect.Type interface holding non-rtype")
		abort()
	}
	return rt.T
}

func alignedSize(t types.Type) int64 { return sizeof(t) }

func kindOf(t types.Type) reflect.Kind {
	switch u := t.Underlying().(type) {
	case *types.Basic:
		switch u.Kind() {
		case types.Bool:
			return reflect.Bool
		case types.Int:
			return reflect.Int
		case types.Int8:
			return reflect.Int8
		case types.Int16:
			return reflect.Int16
		case types.Int32:
			return reflect.Int32
		case types.Int64:
			return reflect.Int64
		case types.Uint:
			return reflect.Uint
		case types.Uint8:
			return reflect.Uint8
		case types.Uint16:
			return reflect.Uint16
		case types.Uint32:
			return reflect.Uint32
		case types.Uint64:
			return reflect.Uint64
		case types.Uintptr:
			return reflect.Uintptr
		case types.Float32:
			return reflect.Float32
		case types.Float64:
			return reflect.Float64
		case types.String:
			return reflect.String
		case types.UnsafePointer:
			return reflect.UnsafePointer
		}
	case *types.Struct:
		return reflect.Struct
	case *types.Pointer:
		return reflect.Ptr
	case *types.Array:
		return reflect.Array
	case *types.Slice:
		return reflect.Slice
	case *types.Map:
		return reflect.Map
	case *types.Interface:
		return reflect.Interface
	case *types.Signature:
		return reflect.Func
	case *types.Chan:
		return reflect.Chan
	}
	return reflect.Invalid
}

// rtypeMethod implements reflect.Type methods.
func (st *State) rtypeMethod(name string, rt RType, args []Value) Value {
	t := rt.T
	switch name {
	case "Size":
		return C(64, uint64(sizeof(t)))
	case "Align":
		return C(64, uint64(sizes.Alignof(t)))
	case "Kind":
		return C(64, uint64(kindOf(t)))
	case "Elem":
		switch u := t.Underlying().(type) {
		case *types.Pointer:
			return rtypeIface(u.Elem())
		case *types.Array:
			return rtypeIface(u.Elem())
		case *types.Slice:
			return rtypeIface(u.Elem())
		case *types.Map:
			return rtypeIface(u.Elem())
		}
		st.throw(Iface{T: types.Typ[types.String], V: Str("reflect: Elem of invalid type " + t.String())})
	case "NumField":
		s, ok := t.Underlying().(*types.Struct)
		if !ok {
			st.throw(Iface{T: types.Typ[types.String], V: Str("reflect: NumField of non-struct type " + t.String())})
		}
		return C(64, uint64(s.NumFields()))
	case "Len":
		a, ok := t.Underlying().(*types.Array)
		if !ok {
			st.throw(Iface{T: types.Typ[types.String], V: Str("reflect: Len of non-array type")})
		}
		return C(64, uint64(a.Len()))
	case "Name":
		if n, ok := t.(*types.Named); ok {
			return Str(n.Obj().Name())
		}
		if b, ok := t.(*types.Basic); ok {
			return Str(b.Name())
		}
		return Str("")
	case "String":
		return Str(types.TypeString(t, func(p *types.Package) string { return p.Name() }))
	case "PkgPath":
		if n, ok := t.(*types.Named); ok && n.Obj().Pkg() != nil {
			return Str(n.Obj().Pkg().Path())
		}
		return Str("")
	case "Field":
		s, ok := t.Underlying().(*types.Struct)
		if !ok {
			st.throw(Iface{T: types.Typ[types.String], V: Str("reflect: Field of non-struct type " + t.String())})
		}
		i := int(st.concretize(args[0].(*Term)))
		if i < 0 || i >= s.NumFields() {
			st.throw(Iface{T: types.Typ[types.String], V: Str("reflect: Field index out of bounds")})
		}
		fld := s.Field(i)
		return st.structFieldValue(fld, fieldOffsets(s)[i], i)
	}
	if name == "FieldByName" {
		s, ok := t.Underlying().(*types.Struct)
		if !ok {
			st.throw(Iface{T: types.Typ[types.String], V: Str("reflect: FieldByName of non-struct type " + t.String())})
		}
		fname, isStr := args[0].(Str)
		if !isStr {
			st.fail("reflect.Type.FieldByName with a non-constant name")
			abort()
		}
		// Go selector rules (depth-first shallowest match through embedded fields,
		// ambiguity = not found) are what reflect.FieldByName implements.
		var pkg *types.Package
		if n, isNamed := t.(*types.Named); isNamed {
			pkg = n.Obj().Pkg()
		}
		obj, index, _ := types.LookupFieldOrMethod(t, false, pkg, string(fname))
		fld, isVar := obj.(*types.Var)
		if !isVar || !fld.IsField() {
			zero := st.structFieldValue(types.NewField(0, nil, "", types.Typ[types.Invalid], false), 0, 0)
			zs := zero.(Struct)
			for i := 0; i < structFieldType.NumFields(); i++ {
				if structFieldType.Field(i).Name() == "Type" {
					zs[i] = Iface{}
				}
			}
			return Tuple{zs, B(false)}
		}
		cur := s
		for _, ix := range index[:len(index)-1] {
			ft := cur.Field(ix).Type()
			if p, isP := ft.Underlying().(*types.Pointer); isP {
				ft = p.Elem()
			}
			cur = ft.Underlying().(*types.Struct)
		}
		last := index[len(index)-1]
		return Tuple{st.structFieldValue(fld, fieldOffsets(cur)[last], last), B(true)}
	}
	st.fail("unsupported reflect.Type method " + name)
	abort()
	return nil
}

var structFieldType *types.Struct

// structFieldValue builds a reflect.StructField register value.
func (st *State) structFieldValue(fld *types.Var, off int64, idx int) Value {
	sft := structFieldType
	if sft == nil {
		for _, p := range st.run.P.Prog.AllPackages() {
			if p.Pkg.Path() == "reflect" {
				sft = p.Pkg.Scope().Lookup("StructField").Type().Underlying().(*types.Struct)
			}
		}
		structFieldType = sft
	}
	out := make(Struct, sft.NumFields())
	for i := 0; i < sft.NumFields(); i++ {
		f := sft.Field(i)
		switch f.Name() {
		case "Name":
			out[i] = Str(fld.Name())
		case "PkgPath":
			if !fld.Exported() && fld.Pkg() != nil {
				out[i] = Str(fld.Pkg().Path())
			} else {
				out[i] = Str("")
			}
		case "Type":
			out[i] = rtypeIface(fld.Type())
		case "Tag":
			out[i] = Str("")
		case "Offset":
			out[i] = C(64, uint64(off))
		case "Index":
			out[i] = Slice{}
		case "Anonymous":
			out[i] = B(fld.Embedded())
		default:
			out[i] = zeroValue(f.Type())
		}
	}
	return out
}

func rvType(st *State, v RValue) types.Type {
	if v.IsZeroRV || v.T == nil {
		st.throw(Iface{T: types.Typ[types.String], V: Str("reflect: call of method on zero Value")})
	}
	return v.T
}

func init() {
	intrinsics = map[string]Intrinsic{
		"reflect.TypeOf": func(st *State, f *Frame, c *ssa.Call, a []Value) {
			i := a[0].(Iface)
			if i.T == nil {
				ret(st, f, Iface{})
				return
			}
			ret(st, f, rtypeIface(i.T))
		},
		"reflect.ArrayOf": func(st *State, f *Frame, c *ssa.Call, a []Value) {
			n := int64(st.concretize(a[0].(*Term)))
			if n < 0 {
				st.throw(Iface{T: types.Typ[types.String], V: Str("reflect: negative length passed to ArrayOf")})
			}
			et := ifaceRType(st, a[1])
			ret(st, f, rtypeIface(types.NewArray(et, n)))
		},
		"reflect.New": func(st *State, f *Frame, c *ssa.Call, a []Value) {
			t := ifaceRType(st, a[0])
			sz := sizeof(t)
			var b int
			if arr, ok := t.Underlying().(*types.Array); ok {
				b = st.newBlock(sz, arr.Elem(), arr.Len(), BHeap)
			} else {
				b = st.newBlock(sz, t, 1, BHeap)
			}
			st.blocks[b].Name = "reflect.New " + t.String()
			ret(st, f, RValue{T: types.NewPointer(t), PtrVal: Ptr{Blk: b}, HasPtr: true})
		},
		"reflect.ValueOf": func(st *State, f *Frame, c *ssa.Call, a []Value) {
			i := a[0].(Iface)
			if i.T == nil {
				ret(st, f, RValue{IsZeroRV: true})
				return
			}
			if p, ok := i.V.(Ptr); ok {
				ret(st, f, RValue{T: i.T, PtrVal: p, HasPtr: true})
				return
			}
			st.fail("reflect.ValueOf of non-pointer value unsupported: " + i.T.String())
			abort()
		},
		"(reflect.Value).Elem": func(st *State, f *Frame, c *ssa.Call, a []Value) {
			v := a[0].(RValue)
			t := rvType(st, v)
			pt, ok := t.Underlying().(*types.Pointer)
			if !ok || !v.HasPtr {
				st.fail("reflect.Value.Elem on non-pointer")
				abort()
			}
			if v.PtrVal.Blk == 0 {
				ret(st, f, RValue{IsZeroRV: true})
				return
			}
			ret(st, f, RValue{T: pt.Elem(), P: v.PtrVal, Addr: true})
		},
		"(reflect.Value).Addr": func(st *State, f *Frame, c *ssa.Call, a []Value) {
			v := a[0].(RValue)
			t := rvType(st, v)
			if !v.Addr {
				st.throw(Iface{T: types.Typ[types.String], V: Str("reflect.Value.Addr of unaddressable value")})
			}
			ret(st, f, RValue{T: types.NewPointer(t), PtrVal: v.P, HasPtr: true})
		},
		"(reflect.Value).UnsafePointer": func(st *State, f *Frame, c *ssa.Call, a []Value) {
			v := a[0].(RValue)
			rvType(st, v)
			if !v.HasPtr {
				st.fail("reflect.Value.UnsafePointer on non-pointer value")
				abort()
			}
			ret(st, f, v.PtrVal)
		},
		"(reflect.Value).Pointer": func(st *State, f *Frame, c *ssa.Call, a []Value) {
			st.fail("reflect.Value.Pointer unsupported")
			abort()
		},
		"(reflect.Value).Type": func(st *State, f *Frame, c *ssa.Call, a []Value) {
			v := a[0].(RValue)
			ret(st, f, rtypeIface(rvType(st, v)))
		},
		"(reflect.Value).SetZero": func(st *State, f *Frame, c *ssa.Call, a []Value) {
			v := a[0].(RValue)
			t := rvType(st, v)
			if !v.Addr {
				st.throw(Iface{T: types.Typ[types.String], V: Str("reflect: SetZero of unaddressable value")})
			}
			st.zeroBytes(v.P, sizeof(t))
			ret(st, f, nil)
		},
		"(reflect.Value).Len": func(st *State, f *Frame, c *ssa.Call, a []Value) {
			v := a[0].(RValue)
			t := rvType(st, v)
			if arr, ok := t.Underlying().(*types.Array); ok {
				ret(st, f, C(64, uint64(arr.Len())))
				return
			}
			st.fail("reflect.Value.Len on non-array")
			abort()
		},
		"reflect.Copy": func(st *State, f *Frame, c *ssa.Call, a []Value) {
			dst, src := a[0].(RValue), a[1].(RValue)
			dt, ok1 := rvType(st, dst).Underlying().(*types.Array)
			stp, ok2 := rvType(st, src).Underlying().(*types.Array)
			if !ok1 || !ok2 {
				st.fail("reflect.Copy on non-arrays")
				abort()
			}
			if !dst.Addr {
				st.throw(Iface{T: types.Typ[types.String], V: Str("reflect.Copy: unaddressable destination")})
			}
			if !types.Identical(dt.Elem(), stp.Elem()) {
				st.throw(Iface{T: types.Typ[types.String], V: Str("reflect.Copy: element type mismatch")})
			}
			n := dt.Len()
			if stp.Len() < n {
				n = stp.Len()
			}
			st.copyBytes(dst.P, src.P, n*sizeof(dt.Elem()))
			ret(st, f, C(64, uint64(n)))
		},
		"fmt.Sprintf": func(st *State, f *Frame, c *ssa.Call, a []Value) {
			s, _ := a[0].(Str)
			ret(st, f, Str("fmt:"+string(s)))
		},
		"fmt.Sprint": func(st *State, f *Frame, c *ssa.Call, a []Value) {
			ret(st, f, Str("fmt:sprint"))
		},
		"fmt.Errorf": func(st *State, f *Frame, c *ssa.Call, a []Value) {
			st.fail("fmt.Errorf unsupported")
			abort()
		},
		"fmt.Println": func(st *State, f *Frame, c *ssa.Call, a []Value) { ret(st, f, Tuple{C(64, 0), Iface{}}) },
		"fmt.Printf":  func(st *State, f *Frame, c *ssa.Call, a []Value) { ret(st, f, Tuple{C(64, 0), Iface{}}) },
		"math/bits.OnesCount64": func(st *State, f *Frame, c *ssa.Call, a []Value) {
			ret(st, f, PopCount64(a[0].(*Term)))
		},
		"math/bits.OnesCount": func(st *State, f *Frame, c *ssa.Call, a []Value) {
			ret(st, f, PopCount64(a[0].(*Term)))
		},

		// encoding/json for fixed arrays of unsigned integers: an abstract lossless
		// encoding (the words, little endian, in a tagged byte block). JSON syntax is
		// trusted; what is decided is the arche code around the two calls.
		"encoding/json.Marshal": func(st *State, f *Frame, c *ssa.Call, a []Value) {
			i, ok := a[0].(Iface)
			if ok && i.T != nil {
				// a json.Marshaler in the method set of the dynamic type is what encoding/json calls
				if fn := st.run.P.lookupMethodByName(i.T, "MarshalJSON"); fn != nil && len(fn.Blocks) > 0 {
					st.pushFrame(fn, []Value{i.V}, nil)
					return
				}
				if _, isStruct := i.T.Underlying().(*types.Struct); isStruct {
					// a struct without Marshaler: an object (fields are not modelled)
					b := st.newBlock(2, types.Typ[types.Uint8], 2, BHeap)
					st.blocks[b].Name = "json object"
					ret(st, f, Tuple{Slice{P: Ptr{Blk: b}, Len: 2, Cap: 2}, Iface{}})
					return
				}
			}
			var arr *types.Array
			if ok && i.T != nil {
				arr, _ = i.T.Underlying().(*types.Array)
			}
			vals, isS := i.V.(Struct)
			if arr == nil || !isS {
				st.fail("encoding/json.Marshal: only arrays of integers are modelled")
				abort()
			}
			es := sizeof(arr.Elem())
			b := st.newBlock(arr.Len()*es, types.Typ[types.Uint8], arr.Len()*es, BHeap)
			st.blocks[b].Name = "json " + arr.String()
			for k := int64(0); k < arr.Len(); k++ {
				st.Store(Ptr{Blk: b, Off: k * es}, arr.Elem(), vals[k])
			}
			ret(st, f, Tuple{Slice{P: Ptr{Blk: b}, Len: arr.Len() * es, Cap: arr.Len() * es}, Iface{}})
		},
		"encoding/json.Unmarshal": func(st *State, f *Frame, c *ssa.Call, a []Value) {
			data := a[0].(Slice)
			i, ok := a[1].(Iface)
			if ok && i.T != nil {
				if fn := st.run.P.lookupMethodByName(i.T, "UnmarshalJSON"); fn != nil && len(fn.Blocks) > 0 {
					st.pushFrame(fn, []Value{i.V, data}, nil)
					return
				}
			}
			if blk := st.block(data.P.Blk); blk != nil && blk.Name == "json object" {
				if pt, isP := i.T.Underlying().(*types.Pointer); isP {
					if _, isArr := pt.Elem().Underlying().(*types.Array); isArr {
						ret(st, f, Iface{T: types.Universe.Lookup("error").Type(), V: Str("json: cannot unmarshal object into Go value of array type")})
						return
					}
				}
			}
			var arr *types.Array
			var dst Ptr
			if ok && i.T != nil {
				if pt, isP := i.T.Underlying().(*types.Pointer); isP {
					arr, _ = pt.Elem().Underlying().(*types.Array)
					dst, _ = i.V.(Ptr)
				}
			}
			blk := st.block(data.P.Blk)
			if arr == nil || blk == nil || blk.Name != "json "+arr.String() || data.P.Off != 0 || data.Len != blk.Size {
				st.fail("encoding/json.Unmarshal: only data produced by the modelled Marshal into an array of the same type is modelled")
				abort()
			}
			es := sizeof(arr.Elem())
			for k := int64(0); k < arr.Len(); k++ {
				st.Store(Ptr{Blk: dst.Blk, Off: dst.Off + k*es}, arr.Elem(), st.Load(Ptr{Blk: data.P.Blk, Off: k * es}, arr.Elem()))
			}
			ret(st, f, Iface{})
		},
		"math/bits.TrailingZeros64": func(st *State, f *Frame, c *ssa.Call, a []Value) {
			x := a[0].(*Term)
			r := C(64, 64)
			for i := 63; i >= 0; i-- {
				bit := Eq(Extract(x, uint8(i), uint8(i)), C(1, 1))
				r = Ite(bit, C(64, uint64(i)), r)
			}
			ret(st, f, r)
		},
	}
	harnessIntrinsics = map[string]Intrinsic{
		"vU8":   func(st *State, f *Frame, c *ssa.Call, a []Value) { ret(st, f, st.addSym(string(a[0].(Str)), 8)) },
		"vU16":  func(st *State, f *Frame, c *ssa.Call, a []Value) { ret(st, f, st.addSym(string(a[0].(Str)), 16)) },
		"vU32":  func(st *State, f *Frame, c *ssa.Call, a []Value) { ret(st, f, st.addSym(string(a[0].(Str)), 32)) },
		"vU64":  func(st *State, f *Frame, c *ssa.Call, a []Value) { ret(st, f, st.addSym(string(a[0].(Str)), 64)) },
		"vInt":  func(st *State, f *Frame, c *ssa.Call, a []Value) { ret(st, f, st.addSym(string(a[0].(Str)), 64)) },
		"vBool": func(st *State, f *Frame, c *ssa.Call, a []Value) { ret(st, f, st.addSym(string(a[0].(Str)), 0)) },
		"vChoice": func(st *State, f *Frame, c *ssa.Call, a []Value) {
			n := st.concretize(a[1].(*Term))
			if n == 0 {
				st.status = Killed
				abort()
			}
			name := string(a[0].(Str))
			// reuse the pending symbol when the instruction is re-executed after a fork
			v := st.pendingChoice(name, n)
			k := st.concretize(v)
			st.choices = &choiceList{fmt.Sprintf("%s=%d", name, k), st.choices}
			st.clearPending()
			ret(st, f, C(64, k))
		},
		"vAssume": func(st *State, f *Frame, c *ssa.Call, a []Value) {
			st.assume(a[0].(*Term))
			ret(st, f, nil)
		},
		// vBound(c, label): a capacity bound of the harness (model sizes). Pruning a
		// path here is counted per label and reported, so that an unintended cut of
		// the explored space is visible.
		"vBound": func(st *State, f *Frame, c *ssa.Call, a []Value) {
			t := a[0].(*Term)
			label := string(a[1].(Str))
			if t.Op == OConst && t.K == 0 {
				st.run.notePrune(label)
			}
			st.assume(t)
			ret(st, f, nil)
		},
		"vAssert": func(st *State, f *Frame, c *ssa.Call, a []Value) {
			st.assertProp(a[0].(*Term), string(a[1].(Str)))
			ret(st, f, nil)
		},
		"vReach": func(st *State, f *Frame, c *ssa.Call, a []Value) {
			st.run.reach(string(a[0].(Str)))
			ret(st, f, nil)
		},
		"vAnd":     func(st *State, f *Frame, c *ssa.Call, a []Value) { ret(st, f, And(a[0].(*Term), a[1].(*Term))) },
		"vOr":      func(st *State, f *Frame, c *ssa.Call, a []Value) { ret(st, f, Or(a[0].(*Term), a[1].(*Term))) },
		"vImplies": func(st *State, f *Frame, c *ssa.Call, a []Value) { ret(st, f, Or(Not(a[0].(*Term)), a[1].(*Term))) },
		"vIte64": func(st *State, f *Frame, c *ssa.Call, a []Value) {
			ret(st, f, Ite(a[0].(*Term), a[1].(*Term), a[2].(*Term)))
		},
		"vB2U": func(st *State, f *Frame, c *ssa.Call, a []Value) { ret(st, f, BoolToBV(a[0].(*Term), 64)) },
		"vConcrete": func(st *State, f *Frame, c *ssa.Call, a []Value) {
			ret(st, f, C(64, st.concretize(a[0].(*Term))))
		},
		"vCatch": func(st *State, f *Frame, c *ssa.Call, a []Value) {
			cl, _ := a[0].(*Closure)
			if cl == nil {
				st.throwNilDeref()
			}
			fr := st.pushFrame(cl.Fn, nil, cl.Bind)
			fr.catch = true
		},
		"vLog": func(st *State, f *Frame, c *ssa.Call, a []Value) {
			st.addLog(LogEntry{Label: string(a[0].(Str)), T: a[1].(*Term)})
			ret(st, f, nil)
		},
		"vLogS": func(st *State, f *Frame, c *ssa.Call, a []Value) {
			st.addLog(LogEntry{Label: string(a[0].(Str)), S: string(a[1].(Str))})
			ret(st, f, nil)
		},
		"vLogB": func(st *State, f *Frame, c *ssa.Call, a []Value) {
			st.addLog(LogEntry{Label: string(a[0].(Str)), T: BoolToBV(a[1].(*Term), 64)})
			ret(st, f, nil)
		},
		"vPtrEq": func(st *State, f *Frame, c *ssa.Call, a []Value) {
			ret(st, f, B(a[0].(Ptr) == a[1].(Ptr)))
		},
		"vIsSym": func(st *State, f *Frame, c *ssa.Call, a []Value) {
			ret(st, f, B(a[0].(*Term).Op != OConst))
		},
		"vNote": func(st *State, f *Frame, c *ssa.Call, a []Value) {
			st.choices = &choiceList{string(a[0].(Str)), st.choices}
			ret(st, f, nil)
		},
		"vTier": func(st *State, f *Frame, c *ssa.Call, a []Value) { ret(st, f, C(64, uint64(TierN))) },
		"vMapOrderFixed": func(st *State, f *Frame, c *ssa.Call, a []Value) {
			st.mapFixed = st.concretize(a[0].(*Term)) != 0
			ret(st, f, nil)
		},
		"vGCCheck": func(st *State, f *Frame, c *ssa.Call, a []Value) { st.gcCheck = true; ret(st, f, nil) },
		"vTrack":   func(st *State, f *Frame, c *ssa.Call, a []Value) { ret(st, f, nil) },
		"vHeapString": func(st *State, f *Frame, c *ssa.Call, a []Value) {
			ret(st, f, Str(fmt.Sprintf("heap-string-%d", st.concretize(a[0].(*Term)))))
		},
		"vCollected": func(st *State, f *Frame, c *ssa.Call, a []Value) { ret(st, f, B(false)) },
		"vEngine": func(st *State, f *Frame, c *ssa.Call, a []Value) { ret(st, f, B(true)) },
		"vFootprintStart": func(st *State, f *Frame, c *ssa.Call, a []Value) {
			st.fp = &Footprint{Reads: map[int]bool{}, Writes: map[int]bool{}}
			ret(st, f, nil)
		},
	}
}

// pending choice symbol: vChoice creates a symbol, then concretizes (which may
// fork and re-execute the call in the child). The child must reuse the same
// symbol, so it is parked in the state until the choice is resolved.
func (st *State) pendingChoice(name string, n uint64) *Term {
	if st.pend != nil && st.pendName == name {
		return st.pend
	}
	v := st.addSym(name, 16)
	if n > 65535 {
		st.fail("vChoice range too large")
		abort()
	}
	st.assume(Cmp(OUlt, v, C(16, n)))
	st.pend = v
	st.pendName = name
	return v
}

func (st *State) clearPending() { st.pend = nil; st.pendName = "" }

// reach computes the set of blocks reachable from the given blocks through
// pointers, slices, interfaces, maps, closures and reflect values.
func (st *State) reach(start []int) map[int]bool {
	seen := map[int]bool{}
	var stack []int
	push := func(b int) {
		if b > 0 && !seen[b] && b < len(st.blocks) && st.blocks[b] != nil {
			seen[b] = true
			stack = append(stack, b)
		}
	}
	var visit func(v Value)
	visit = func(v Value) {
		switch x := v.(type) {
		case Ptr:
			push(x.Blk)
		case Slice:
			push(x.P.Blk)
		case Iface:
			visit(x.V)
		case MapRef:
			push(int(x))
		case *Closure:
			if x != nil {
				for _, b := range x.Bind {
					visit(b)
				}
			}
		case RValue:
			push(x.P.Blk)
			push(x.PtrVal.Blk)
		case Struct:
			for _, e := range x {
				visit(e)
			}
		case Tuple:
			for _, e := range x {
				visit(e)
			}
		}
	}
	for _, b := range start {
		push(b)
	}
	for len(stack) > 0 {
		b := stack[len(stack)-1]
		stack = stack[:len(stack)-1]
		blk := st.blocks[b]
		for _, c := range blk.Cells {
			visit(c.V)
		}
		if blk.M != nil {
			for _, e := range blk.M.Entries {
				visit(e.K)
				visit(e.V)
			}
		}
	}
	return seen
}

func init() {
	// vFootprintStart(): start recording block reads/writes.
	// vIsolated(other): since vFootprintStart, no block reachable from *other and no
	// package-level variable was written, and every block both read here and
	// reachable from *other is never written (shared read-only data).
	harnessIntrinsics["vIsolated"] = func(st *State, f *Frame, c *ssa.Call, a []Value) {
		p := a[0].(Ptr)
		if st.fp == nil {
			st.fail("vIsolated without vFootprintStart")
			abort()
		}
		other := st.reach([]int{p.Blk})
		var globals []int
		for _, g := range st.run.P.globals {
			globals = append(globals, g)
		}
		shared := st.reach(globals) // everything hanging off package-level variables is shared by all worlds
		ok := true
		detail := ""
		for b := range st.fp.Writes {
			blk := st.block(b)
			if blk == nil {
				continue
			}
			if blk.Kind == BGlobal {
				ok = false
				detail = "write to package-level variable " + blk.Name
			} else if shared[b] {
				ok = false
				detail = "write to memory reachable from a package-level variable: " + blk.Name
			}
			if other[b] {
				ok = false
				detail = "write to a block reachable from the other world: " + blk.Name
			}
		}
		if !ok {
			st.choices = &choiceList{"isolation: " + detail, st.choices}
		}
		st.fp = nil
		ret(st, f, B(ok))
	}
}

// sync.Map / sync.Mutex: the interpreter is single-threaded, so mutexes are
// no-ops and sync.Map is an ordinary map kept behind the sync.Map's address.
func (st *State) syncMapObj(p Ptr, create bool) MapRef {
	b := st.block(p.Blk)
	if b == nil {
		st.throwNilDeref()
	}
	if c, ok := b.Cells[p.Off]; ok {
		if m, ok := c.V.(MapRef); ok {
			return m
		}
	}
	if !create {
		return 0
	}
	nb := st.newBlock(8, nil, 1, BMap)
	st.blocks[nb].M = &MapObj{}
	st.noteWrite(p.Blk)
	wb := st.wblock(p.Blk)
	if wb.Cells == nil {
		wb.Cells = map[int64]Cell{}
	}
	wb.Cells[p.Off] = Cell{8, MapRef(nb)}
	if wb.MaxCell < 8 {
		wb.MaxCell = 8
	}
	return MapRef(nb)
}

func init() {
	nop := func(st *State, f *Frame, c *ssa.Call, a []Value) { ret(st, f, nil) }
	for _, n := range []string{"(*sync.Mutex).Lock", "(*sync.Mutex).Unlock", "(*sync.RWMutex).Lock", "(*sync.RWMutex).Unlock", "(*sync.RWMutex).RLock", "(*sync.RWMutex).RUnlock"} {
		intrinsics[n] = nop
	}
	intrinsics["(*sync.Map).Load"] = func(st *State, f *Frame, c *ssa.Call, a []Value) {
		m := st.syncMapObj(a[0].(Ptr), false)
		if m != 0 {
			mo := st.mapObj(m)
			st.noteRead(int(m))
			if i := st.mapFind(mo, a[1]); i >= 0 {
				ret(st, f, Tuple{mo.Entries[i].V, B(true)})
				return
			}
		}
		ret(st, f, Tuple{Iface{}, B(false)})
	}
	intrinsics["(*sync.Map).Store"] = func(st *State, f *Frame, c *ssa.Call, a []Value) {
		m := st.syncMapObj(a[0].(Ptr), true)
		st.mapUpdate(m, a[1], a[2])
		ret(st, f, nil)
	}
	intrinsics["(*sync.Map).LoadOrStore"] = func(st *State, f *Frame, c *ssa.Call, a []Value) {
		m := st.syncMapObj(a[0].(Ptr), true)
		mo := st.mapObj(m)
		if i := st.mapFind(mo, a[1]); i >= 0 {
			ret(st, f, Tuple{mo.Entries[i].V, B(true)})
			return
		}
		st.mapUpdate(m, a[1], a[2])
		ret(st, f, Tuple{a[2], B(false)})
	}
	intrinsics["(*sync.Map).Delete"] = func(st *State, f *Frame, c *ssa.Call, a []Value) {
		if m := st.syncMapObj(a[0].(Ptr), false); m != 0 {
			st.mapDelete(m, a[1])
		}
		ret(st, f, nil)
	}
}

// bitsFamily registers the math/bits scan functions for one operand width.
func bitsFamily(suffix string, w uint8) {
	widen := func(x *Term) *Term {
		if x.W < w { // uint (64 bit) argument of the unsuffixed functions
			return ZExt(x, w)
		}
		if x.W > w {
			return Extract(x, w-1, 0)
		}
		return x
	}
	intrinsics["math/bits.TrailingZeros"+suffix] = func(st *State, f *Frame, c *ssa.Call, a []Value) {
		x := widen(a[0].(*Term))
		r := C(64, uint64(w))
		for i := int(w) - 1; i >= 0; i-- {
			r = Ite(Eq(Extract(x, uint8(i), uint8(i)), C(1, 1)), C(64, uint64(i)), r)
		}
		ret(st, f, r)
	}
	lenOf := func(x *Term) *Term {
		r := C(64, 0)
		for i := 0; i < int(w); i++ {
			r = Ite(Eq(Extract(x, uint8(i), uint8(i)), C(1, 1)), C(64, uint64(i+1)), r)
		}
		return r
	}
	intrinsics["math/bits.Len"+suffix] = func(st *State, f *Frame, c *ssa.Call, a []Value) {
		ret(st, f, lenOf(widen(a[0].(*Term))))
	}
	intrinsics["math/bits.LeadingZeros"+suffix] = func(st *State, f *Frame, c *ssa.Call, a []Value) {
		ret(st, f, Bin(OSub, C(64, uint64(w)), lenOf(widen(a[0].(*Term)))))
	}
	if _, ok := intrinsics["math/bits.OnesCount"+suffix]; !ok {
		intrinsics["math/bits.OnesCount"+suffix] = func(st *State, f *Frame, c *ssa.Call, a []Value) {
			ret(st, f, PopCount64(ZExt(widen(a[0].(*Term)), 64)))
		}
	}
}

func init() {
	bitsFamily("", 64)
	bitsFamily("64", 64)
	bitsFamily("32", 32)
	bitsFamily("16", 16)
	bitsFamily("8", 8)
}
