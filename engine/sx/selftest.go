package sx

import (
	"fmt"
	"math/rand"
)

// SelfTest cross-checks the term simplifier: random terms are built twice,
// through the simplifying constructors and raw (no simplification); both must
// evaluate equally under random models, and z3 must prove a sample of the
// pairs equivalent. Returns the number of pairs checked and any mismatch.
func SelfTest(seed int64, nEval, nSMT int) (int, int, error) {
	rng := rand.New(rand.NewSource(seed))
	vars := []*Term{Var("sa", 8), Var("sb", 8), Var("sc", 8), Var("sp", 0), Var("sq", 0)}
	type pair struct{ simp, raw *Term }
	var gen func(depth int, w uint8) pair
	genBool := func(depth int) pair { return gen(depth, 0) }
	gen = func(depth int, w uint8) pair {
		if depth == 0 || rng.Intn(5) == 0 {
			if w == 0 {
				if rng.Intn(3) == 0 {
					b := B(rng.Intn(2) == 0)
					return pair{b, b}
				}
				v := vars[3+rng.Intn(2)]
				return pair{v, v}
			}
			if rng.Intn(3) == 0 {
				c := C(8, uint64(rng.Intn(256)))
				if rng.Intn(2) == 0 {
					c = C(8, uint64([]int{0, 1, 255, 128, 127}[rng.Intn(5)]))
				}
				return pair{c, c}
			}
			v := vars[rng.Intn(3)]
			return pair{v, v}
		}
		if w == 0 {
			switch rng.Intn(7) {
			case 0:
				a := genBool(depth - 1)
				return pair{Not(a.simp), mk(ONot, 0, 0, "", a.raw)}
			case 1:
				a, b := genBool(depth-1), genBool(depth-1)
				return pair{And(a.simp, b.simp), mk(OAnd, 0, 0, "", a.raw, b.raw)}
			case 2:
				a, b := genBool(depth-1), genBool(depth-1)
				return pair{Or(a.simp, b.simp), mk(OOr, 0, 0, "", a.raw, b.raw)}
			case 3:
				a, b := gen(depth-1, 8), gen(depth-1, 8)
				return pair{Eq(a.simp, b.simp), mk(OEq, 0, 0, "", a.raw, b.raw)}
			case 4:
				a, b := genBool(depth-1), genBool(depth-1)
				return pair{Eq(a.simp, b.simp), mk(OEq, 0, 0, "", a.raw, b.raw)}
			case 5:
				op := []Op{OUlt, OUle, OSlt, OSle}[rng.Intn(4)]
				a, b := gen(depth-1, 8), gen(depth-1, 8)
				return pair{Cmp(op, a.simp, b.simp), mk(op, 0, 0, "", a.raw, b.raw)}
			default:
				c, a, b := genBool(depth-1), genBool(depth-1), genBool(depth-1)
				return pair{Ite(c.simp, a.simp, b.simp), mk(OIte, 0, 0, "", c.raw, a.raw, b.raw)}
			}
		}
		switch rng.Intn(9) {
		case 0, 1, 2:
			op := []Op{OAdd, OSub, OMul, OUDiv, OURem, OSDiv, OSRem, OBAnd, OBOr, OBXor, OShl, OLShr, OAShr}[rng.Intn(13)]
			a, b := gen(depth-1, 8), gen(depth-1, 8)
			return pair{Bin(op, a.simp, b.simp), mk(op, 8, 0, "", a.raw, b.raw)}
		case 3:
			a := gen(depth-1, 8)
			return pair{BNot(a.simp), mk(OBNot, 8, 0, "", a.raw)}
		case 4:
			a := gen(depth-1, 8)
			return pair{Neg(a.simp), mk(ONeg, 8, 0, "", a.raw)}
		case 5:
			c, a, b := genBool(depth-1), gen(depth-1, 8), gen(depth-1, 8)
			return pair{Ite(c.simp, a.simp, b.simp), mk(OIte, 8, 0, "", c.raw, a.raw, b.raw)}
		case 6: // extract / concat round trip: concat(extract(a,7,k), extract(b,k-1,0))
			k := uint8(1 + rng.Intn(7))
			a, b := gen(depth-1, 8), gen(depth-1, 8)
			s := Concat(Extract(a.simp, 7, k), Extract(b.simp, k-1, 0))
			r := mk(OConcat, 8, 0, "", mk(OExtract, 8-k, uint64(7)<<8|uint64(k), "", a.raw), mk(OExtract, k, uint64(k-1)<<8, "", b.raw))
			return pair{s, r}
		case 7: // zext / sext of a nibble back to 8 bits
			a := gen(depth-1, 8)
			lo := Extract(a.simp, 3, 0)
			rlo := mk(OExtract, 4, uint64(3)<<8, "", a.raw)
			if rng.Intn(2) == 0 {
				return pair{ZExt(lo, 8), mk(OZExt, 8, 0, "", rlo)}
			}
			return pair{SExt(lo, 8), mk(OSExt, 8, 0, "", rlo)}
		default:
			b := genBool(depth - 1)
			return pair{BoolToBV(b.simp, 8), mk(OIte, 8, 0, "", b.raw, C(8, 1), C(8, 0))}
		}
	}
	var s *Solver
	if nSMT > 0 {
		var err error
		s, err = NewSolver("z3", 20000)
		if err != nil {
			return 0, 0, err
		}
		defer s.Close()
	}
	smtDone := 0
	for i := 0; i < nEval; i++ {
		w := uint8(0)
		if rng.Intn(2) == 0 {
			w = 8
		}
		p := gen(4, w)
		for k := 0; k < 8; k++ {
			m := Model{"sa": uint64(rng.Intn(256)), "sb": uint64(rng.Intn(256)), "sc": uint64([]int{0, 1, 255, 128}[rng.Intn(4)]), "sp": uint64(rng.Intn(2)), "sq": uint64(rng.Intn(2))}
			a := Eval(p.simp, m, map[*Term]uint64{})
			b := Eval(p.raw, m, map[*Term]uint64{})
			if a != b {
				return i, smtDone, fmt.Errorf("simplifier mismatch under %v: simplified %s = %d, raw %s = %d", m, SMT(p.simp), a, SMT(p.raw), b)
			}
		}
		if s != nil && smtDone < nSMT && p.simp != p.raw {
			r, _ := s.Check(nil, Not(mk(OEq, 0, 0, "", p.simp, p.raw)), false)
			smtDone++
			if r != Unsat {
				return i, smtDone, fmt.Errorf("z3 does not prove simplified == raw (%v): %s vs %s", r, SMT(p.simp), SMT(p.raw))
			}
		}
	}
	if s != nil && s.Err != "" {
		return nEval, smtDone, fmt.Errorf("solver error: %s", s.Err)
	}
	return nEval, smtDone, nil
}
