package sx

import (
	"go/types"
	"sort"
	"strings"

	"golang.org/x/tools/go/ssa"
)

// Census lists the potential sources of nondeterminism in the library code
// (harness functions excluded): ranges over maps, pointer-to-integer
// conversions, go / select statements, and callees in time, math/rand, runtime.
func Census(p *Program) map[string]any {
	var mapRanges, ptrConv, goStmts, calls []string
	nfn := 0
	for _, pkg := range p.Pkgs {
		for _, mem := range pkg.Members {
			var fns []*ssa.Function
			switch m := mem.(type) {
			case *ssa.Function:
				fns = append(fns, m)
			case *ssa.Type:
				for _, t := range []types.Type{m.Type(), types.NewPointer(m.Type())} {
					ms := p.Prog.MethodSets.MethodSet(t)
					for i := 0; i < ms.Len(); i++ {
						if f := p.Prog.MethodValue(ms.At(i)); f != nil {
							fns = append(fns, f)
						}
					}
				}
			}
			for _, fn := range fns {
				var all []*ssa.Function
				all = append(all, fn)
				all = append(all, fn.AnonFuncs...)
				for _, f := range all {
					if f.Pkg != pkg && f.Pkg != nil {
						continue
					}
					pos := p.Prog.Fset.Position(f.Pos())
					if strings.Contains(pos.Filename, "zz_verif_") || len(f.Blocks) == 0 {
						continue
					}
					nfn++
					for _, b := range f.Blocks {
						for _, ins := range b.Instrs {
							where := f.String() + " " + p.Prog.Fset.Position(ins.Pos()).String()
							switch x := ins.(type) {
							case *ssa.Range:
								if _, ok := x.X.Type().Underlying().(*types.Map); ok {
									mapRanges = append(mapRanges, where)
								}
							case *ssa.Convert:
								if bt, ok := x.Type().Underlying().(*types.Basic); ok && bt.Info()&types.IsInteger != 0 {
									switch ft := x.X.Type().Underlying().(type) {
									case *types.Pointer:
										ptrConv = append(ptrConv, where)
									case *types.Basic:
										if ft.Kind() == types.UnsafePointer {
											ptrConv = append(ptrConv, where)
										}
									}
								}
							case *ssa.Go, *ssa.Select:
								goStmts = append(goStmts, where)
							case *ssa.Call:
								if callee, ok := x.Call.Value.(*ssa.Function); ok && callee.Pkg != nil {
									switch callee.Pkg.Pkg.Path() {
									case "time", "math/rand", "math/rand/v2", "runtime", "sync", "os":
										calls = append(calls, where+" -> "+callee.String())
									}
								}
							}
						}
					}
				}
			}
		}
	}
	for _, l := range [][]string{mapRanges, ptrConv, goStmts, calls} {
		sort.Strings(l)
	}
	return map[string]any{
		"functions_scanned":                 nfn,
		"map_range_sites":                   mapRanges,
		"pointer_to_integer_conversions":    ptrConv,
		"go_or_select_statements":           goStmts,
		"calls_into_time_rand_runtime_sync": calls,
	}
}
