package sx

import (
	"fmt"
	"go/token"
	"go/types"
	"strings"

	"golang.org/x/tools/go/ssa"
)

type abortInstr struct{}

func abort() { panic(abortInstr{}) }

// ---- decisions ----

// decide resolves a symbolic condition for this path, forking when both
// outcomes are feasible. Must be called before the current instruction mutates
// the state.
func (st *State) decide(c *Term) bool {
	if c.Op == OConst {
		return c.K != 0
	}
	if len(st.pinned) > 0 {
		c = Subst(c, st.pinned, map[*Term]*Term{})
		if c.Op == OConst {
			return c.K != 0
		}
	}
	if st.spec {
		// no forking while if-converting: the condition must be decided by the path condition
		w := st.run.workerOf(st)
		if r, _ := w.solver.Check(st.pc, c, false); r == Unsat {
			return false
		}
		if r, _ := w.solver.Check(st.pc, Not(c), false); r == Unsat {
			return true
		}
		panic(specAbort{})
	}
	w := st.run.workerOf(st)
	if st.model == nil {
		r, m := w.solver.Check(st.pc, nil, true)
		if r != Sat {
			st.solverTrouble(r)
		}
		st.setModel(m)
	}
	side := st.evalModel(c) != 0
	var mine, other *Term
	if side {
		mine, other = c, Not(c)
	} else {
		mine, other = Not(c), c
	}
	r, m := w.solver.Check(st.pc, other, true)
	switch r {
	case Sat:
		child := st.clone()
		child.pc = st.pc.Push(other)
		child.setModel(m)
		st.run.push(child)
		st.pc = st.pc.Push(mine)
		st.run.forks.Add(1)
	case Unknown:
		st.solverTrouble(r)
	}
	return side
}

func (st *State) solverTrouble(r Result) {
	w := st.run.workerOf(st)
	st.run.noteInconclusive(fmt.Sprintf("solver answered %v (%s)", r, w.solver.Err))
	st.status = Failed
	st.errMsg = "solver: " + r.String() + " " + w.solver.Err
	abort()
}

// concretize picks a concrete value for t on this path and forks for the rest.
func (st *State) concretize(t *Term) uint64 {
	if t.Op == OConst {
		return t.K
	}
	if len(st.pinned) > 0 {
		t = Subst(t, st.pinned, map[*Term]*Term{})
		if t.Op == OConst {
			return t.K
		}
	}
	if st.spec {
		panic(specAbort{})
	}
	w := st.run.workerOf(st)
	if st.model == nil {
		r, m := w.solver.Check(st.pc, nil, true)
		if r != Sat {
			st.solverTrouble(r)
		}
		st.setModel(m)
	}
	v := st.evalModel(t)
	eq := Eq(t, C(t.W, v))
	if eq.Op == OConst {
		return v
	}
	r, m := w.solver.Check(st.pc, Not(eq), true)
	switch r {
	case Sat:
		st.run.enumCount.Add(1)
		child := st.clone()
		child.pc = st.pc.Push(Not(eq))
		child.setModel(m)
		st.run.push(child)
		st.run.forks.Add(1)
	case Unknown:
		st.solverTrouble(r)
	}
	st.pc = st.pc.Push(eq)
	// pin every variable of t that the path condition now determines uniquely
	vs := map[*Term]bool{}
	Vars(t, vs, map[*Term]bool{})
	if len(vs) <= 4 {
		for x := range vs {
			if _, ok := st.pinned[x.Name]; ok {
				continue
			}
			if st.model == nil {
				break
			}
			xv := st.model[x.Name] & mask1(x.W)
			var ne *Term
			if x.W == 0 {
				ne = Not(Eq(x, B(xv != 0)))
			} else {
				ne = Not(Eq(x, C(x.W, xv)))
			}
			if r, _ := w.solver.Check(st.pc, ne, false); r == Unsat {
				np := make(map[string]uint64, len(st.pinned)+1)
				for k, y := range st.pinned {
					np[k] = y
				}
				np[x.Name] = xv
				st.pinned = np
			}
		}
	}
	return v
}

// assume adds c to the path condition; kills the path if infeasible.
func (st *State) assume(c *Term) {
	if len(st.pinned) > 0 && c.Op != OConst {
		c = Subst(c, st.pinned, map[*Term]*Term{})
	}
	if c.Op == OConst {
		if c.K == 0 {
			st.status = Killed
			abort()
		}
		return
	}
	w := st.run.workerOf(st)
	if st.model != nil && st.evalModel(c) != 0 {
		st.pc = st.pc.Push(c)
		return
	}
	r, m := w.solver.Check(st.pc, c, true)
	switch r {
	case Sat:
		st.pc = st.pc.Push(c)
		st.setModel(m)
	case Unsat:
		st.status = Killed
		abort()
	default:
		st.solverTrouble(r)
	}
}

// ---- panics ----

func (st *State) throwNilDeref() {
	st.throw(Iface{T: types.Typ[types.String], V: Str("runtime error: invalid memory address or nil pointer dereference")})
}

func (st *State) throwRuntime(msg string) {
	st.throw(Iface{T: types.Typ[types.String], V: Str("runtime error: " + msg)})
}

func panicString(v Value) string {
	if i, ok := v.(Iface); ok {
		if s, ok := i.V.(Str); ok {
			return string(s)
		}
		if i.T == nil {
			return "<nil>"
		}
		return "<" + i.T.String() + ">"
	}
	return fmt.Sprintf("%v", v)
}

// throw raises a Go panic: unwinds to the nearest vCatch boundary.
func (st *State) throw(v Value) {
	if st.spec {
		panic(specAbort{})
	}
	for i := len(st.frames) - 1; i >= 0; i-- {
		f := st.frames[i]
		if len(f.defers) > 0 && !f.panicking {
			// run the deferred calls of this frame before unwinding further
			for j := len(st.frames) - 1; j > i; j-- {
				st.freeLocals(st.frames[j])
			}
			st.frames = st.frames[:i+1]
			f.panicking = true
			st.panicV = v
			st.recovered = false
			abort()
		}
		if f.catch {
			// pop frames i.. ; deliver to frame i-1
			for j := len(st.frames) - 1; j >= i; j-- {
				st.freeLocals(st.frames[j])
			}
			st.frames = st.frames[:i]
			caller := st.top()
			st.deliver(caller, Tuple{B(true), Str(panicString(v))})
			abort()
		}
	}
	st.status = Panicked
	st.panicV = v
	st.errMsg = panicString(v) + st.where()
	abort()
}

// runDeferred pops the last deferred call of f and runs it; f does not advance.
func (st *State) runDeferred(f *Frame) {
	d := f.defers[len(f.defers)-1]
	f.defers = f.defers[:len(f.defers)-1]
	cl := d.fn.(*Closure)
	if cl.Fn == nil {
		return
	}
	if m := st.run.P.fnMeta(cl.Fn); m.intr != nil || len(cl.Fn.Blocks) == 0 {
		// deferred intrinsics (mutex unlock ...) have no effect in the single-threaded engine
		name := cl.Fn.String()
		if !strings.HasPrefix(name, "(*sync.") {
			st.fail("deferred call of external function " + name)
			abort()
		}
		return
	}
	fr := st.pushFrame(cl.Fn, d.args, cl.Bind)
	fr.noAdvance = true
}

func (st *State) freeLocals(f *Frame) {
	if st.noFree {
		return
	}
	for _, b := range f.locals {
		if st.blocks[b] != nil {
			st.blocks[b] = nil
		}
	}
}

// deliver stores the result of the pending call of frame f and advances it.
func (st *State) deliver(f *Frame, res Value) {
	ins := f.blk.Instrs[f.ip]
	if v, ok := ins.(ssa.Value); ok {
		f.regs[f.fi.slots[v]] = res
	}
	f.ip++
}

// ---- operand access ----

func (st *State) get(f *Frame, v ssa.Value) Value {
	switch x := v.(type) {
	case *ssa.Const:
		return st.run.P.constVal(x)
	case *ssa.Global:
		b, ok := st.run.P.globals[x]
		if !ok {
			st.fail("unknown global " + x.String())
			abort()
		}
		return Ptr{Blk: b}
	case *ssa.Function:
		return &Closure{Fn: x}
	case *ssa.Builtin:
		return &Closure{Native: "builtin:" + x.Name()}
	}
	s, ok := f.fi.slots[v]
	if !ok {
		st.fail("no slot for " + v.Name())
		abort()
	}
	return f.regs[s]
}

func (st *State) set(f *Frame, v ssa.Value, val Value) {
	f.regs[f.fi.slots[v]] = val
}

func (st *State) term(f *Frame, v ssa.Value) *Term {
	x := st.get(f, v)
	t, ok := x.(*Term)
	if !ok {
		st.fail(fmt.Sprintf("expected scalar, got %T for %s", x, v.Name()))
		abort()
	}
	return t
}

// ---- frames ----

func (st *State) pushFrame(fn *ssa.Function, args []Value, bind []Value) *Frame {
	if len(fn.Blocks) == 0 {
		st.fail("call of function without body: " + fn.String())
		abort()
	}
	if len(st.frames) > 400 {
		st.fail("call depth exceeded")
		abort()
	}
	fi := st.run.P.info(fn)
	fr := &Frame{fi: fi, regs: make([]Value, fi.nslots), blk: fn.Blocks[0]}
	for i, p := range fn.Params {
		if i < len(args) {
			fr.regs[fi.slots[p]] = args[i]
		}
	}
	for i, fv := range fn.FreeVars {
		fr.regs[fi.slots[fv]] = bind[i]
	}
	st.frames = append(st.frames, fr)
	return fr
}

func (st *State) doReturn(f *Frame, res Value) {
	if len(f.defers) > 0 {
		st.fail("return with pending defers (missing RunDefers)")
		abort()
	}
	st.freeLocals(f)
	st.frames = st.frames[:len(st.frames)-1]
	if len(st.frames) == 0 {
		st.status = Done
		st.ret = res
		return
	}
	caller := st.top()
	if f.noAdvance {
		return // a deferred call finished: the caller continues with RunDefers / unwinding
	}
	if f.catch {
		st.deliver(caller, Tuple{B(false), Str("")})
		return
	}
	st.deliver(caller, res)
}

// jump transfers control to block to, evaluating phis in parallel.
func (st *State) jump(f *Frame, to *ssa.BasicBlock) {
	from := f.blk
	var vals []Value
	var phis []*ssa.Phi
	for _, ins := range to.Instrs {
		phi, ok := ins.(*ssa.Phi)
		if !ok {
			break
		}
		idx := -1
		for i, p := range to.Preds {
			if p == from {
				idx = i
				break
			}
		}
		vals = append(vals, st.get(f, phi.Edges[idx]))
		phis = append(phis, phi)
	}
	for i, phi := range phis {
		st.set(f, phi, vals[i])
	}
	f.prev = from
	f.blk = to
	f.ip = len(phis)
}

// ---- the step function ----

func (st *State) step() {
	f := st.top()
	if f.panicking {
		if len(f.defers) > 0 {
			st.runDeferred(f)
			return
		}
		f.panicking = false
		if st.recovered {
			// recover() stopped the panic: the function returns zero results
			st.recovered = false
			var res Value
			if r := f.fi.fn.Signature.Results(); r.Len() == 1 {
				res = zeroValue(r.At(0).Type())
			} else if r.Len() > 1 {
				res = zeroValue(r)
			}
			st.doReturn(f, res)
			return
		}
		// continue unwinding above this frame
		st.freeLocals(f)
		st.frames = st.frames[:len(st.frames)-1]
		v := st.panicV
		if len(st.frames) == 0 {
			st.status = Panicked
			st.errMsg = panicString(v)
			return
		}
		st.throw(v)
		return
	}
	ins := f.blk.Instrs[f.ip]
	st.steps++
	if st.steps > st.run.Opts.MaxSteps {
		st.run.noteInconclusive("instruction budget exceeded (unwinding assertion)")
		st.fail("instruction budget exceeded")
		abort()
	}
	switch x := ins.(type) {
	case *ssa.Alloc:
		t := elemOfPtr(x.Type())
		kind := BHeap
		if !x.Heap {
			kind = BStack
		}
		b := st.newBlock(sizeof(t), t, 1, kind)
		st.blocks[b].Name = f.fi.fn.Name() + "." + x.Comment
		if !x.Heap {
			f.locals = append(f.locals, b)
		}
		st.set(f, x, Ptr{Blk: b})
	case *ssa.BinOp:
		st.set(f, x, st.binop(x.Op, x.X.Type(), st.get(f, x.X), st.get(f, x.Y), x.Y.Type()))
	case *ssa.UnOp:
		st.set(f, x, st.unop(f, x))
	case *ssa.Call:
		st.call(f, x)
		return
	case *ssa.ChangeInterface:
		st.set(f, x, st.get(f, x.X))
	case *ssa.ChangeType:
		st.set(f, x, st.get(f, x.X))
	case *ssa.Convert:
		st.set(f, x, st.convert(st.get(f, x.X), x.X.Type(), x.Type()))
	case *ssa.MultiConvert:
		st.set(f, x, st.convert(st.get(f, x.X), x.X.Type(), x.Type()))
	case *ssa.Extract:
		st.set(f, x, st.get(f, x.Tuple).(Tuple)[x.Index])
	case *ssa.Field:
		st.set(f, x, st.get(f, x.X).(Struct)[x.Field])
	case *ssa.FieldAddr:
		p := st.concPtr(st.get(f, x.X))
		if p.Blk == 0 {
			st.throwNilDeref()
		}
		s := elemOfPtr(x.X.Type()).Underlying().(*types.Struct)
		st.set(f, x, Ptr{p.Blk, p.Off + fieldOffsets(s)[x.Field]})
	case *ssa.Index:
		st.set(f, x, st.index(f, x))
	case *ssa.IndexAddr:
		st.set(f, x, st.indexAddr(f, x))
	case *ssa.Lookup:
		st.set(f, x, st.lookup(f, x))
	case *ssa.MakeInterface:
		st.set(f, x, Iface{T: x.X.Type(), V: st.get(f, x.X)})
	case *ssa.MakeClosure:
		fn := x.Fn.(*ssa.Function)
		bind := make([]Value, len(x.Bindings))
		for i, b := range x.Bindings {
			bind[i] = st.get(f, b)
		}
		st.set(f, x, &Closure{Fn: fn, Bind: bind})
	case *ssa.MakeMap:
		mt := x.Type().Underlying().(*types.Map)
		b := st.newBlock(8, x.Type(), 1, BMap)
		st.blocks[b].M = &MapObj{KT: mt.Key(), VT: mt.Elem()}
		st.set(f, x, MapRef(b))
	case *ssa.MakeSlice:
		ln := st.idxTerm(f, x.Len)
		cp := st.idxTerm(f, x.Cap)
		et := x.Type().Underlying().(*types.Slice).Elem()
		if st.decide(Cmp(OSlt, ln, C(ln.W, 0))) {
			st.throwRuntime("makeslice: len out of range")
		}
		if st.decide(Cmp(OSlt, cp, ln)) {
			st.throwRuntime("makeslice: cap out of range")
		}
		l := int64(st.concretize(ln))
		c := int64(st.concretize(cp))
		if c > 1<<24 {
			st.fail("makeslice too large")
			abort()
		}
		b := st.newBlock(c*sizeof(et), et, c, BHeap)
		st.blocks[b].Name = "make " + x.Type().String()
		st.set(f, x, Slice{P: Ptr{Blk: b}, Len: l, Cap: c})
	case *ssa.MapUpdate:
		st.mapUpdate(st.get(f, x.Map).(MapRef), st.get(f, x.Key), st.get(f, x.Value))
	case *ssa.Range:
		st.set(f, x, st.rangeInit(f, x))
	case *ssa.Next:
		st.set(f, x, st.rangeNext(f, x))
	case *ssa.Panic:
		st.throw(st.get(f, x.X))
	case *ssa.Return:
		var res Value
		switch len(x.Results) {
		case 0:
		case 1:
			res = st.get(f, x.Results[0])
		default:
			t := make(Tuple, len(x.Results))
			for i, r := range x.Results {
				t[i] = st.get(f, r)
			}
			res = t
		}
		st.doReturn(f, res)
		return
	case *ssa.Slice:
		st.set(f, x, st.sliceOp(f, x))
	case *ssa.SliceToArrayPointer:
		s := st.get(f, x.X).(Slice)
		n := elemOfPtr(x.Type()).Underlying().(*types.Array).Len()
		if s.Len < n {
			st.throwRuntime("cannot convert slice to array pointer: length too short")
		}
		if s.P.Blk == 0 {
			st.set(f, x, Ptr{})
		} else {
			st.set(f, x, s.P)
		}
	case *ssa.Store:
		av := st.get(f, x.Addr)
		if sp, ok := av.(SymPtr); ok {
			nv := st.get(f, x.Val).(*Term)
			for i := int64(0); i < sp.N; i++ {
				q := Ptr{sp.Blk, sp.Base + i*sp.Stride}
				old := st.Load(q, x.Val.Type()).(*Term)
				st.Store(q, x.Val.Type(), Ite(Eq(sp.Idx, C(64, uint64(i))), nv, old))
			}
		} else {
			st.Store(av.(Ptr), x.Val.Type(), st.get(f, x.Val))
		}
	case *ssa.TypeAssert:
		st.set(f, x, st.typeAssert(f, x))
	case *ssa.If:
		c := st.term(f, x.Cond)
		if c.Op != OConst && st.tryMerge(f, c) {
			return
		}
		if st.decide(c) {
			st.jump(f, f.blk.Succs[0])
		} else {
			st.jump(f, f.blk.Succs[1])
		}
		return
	case *ssa.Jump:
		st.jump(f, f.blk.Succs[0])
		return
	case *ssa.DebugRef:
	case *ssa.RunDefers:
		if len(f.defers) > 0 {
			st.runDeferred(f)
			return
		}
	case *ssa.Defer:
		c := x.Common()
		d := deferred{}
		for _, a := range c.Args {
			d.args = append(d.args, st.get(f, a))
		}
		if c.IsInvoke() {
			recv, ok := st.get(f, c.Value).(Iface)
			if !ok || recv.T == nil {
				st.throwNilDeref()
			}
			fn := st.run.P.lookupMethod(recv.T, c.Method)
			if fn == nil {
				st.fail("deferred method not found")
				abort()
			}
			d.fn = &Closure{Fn: fn}
			d.args = append([]Value{recv.V}, d.args...)
		} else {
			switch v := c.Value.(type) {
			case *ssa.Builtin:
				st.fail("deferred builtin unsupported: " + v.Name())
				abort()
			default:
				cl, _ := st.get(f, v).(*Closure)
				if cl == nil {
					st.throwNilDeref()
				}
				d.fn = cl
			}
		}
		f.defers = append(f.defers, d)
	default:
		st.fail(fmt.Sprintf("unsupported instruction %T: %s", ins, ins))
		abort()
	}
	f.ip++
}

// ---- operators ----

func isSigned(t types.Type) bool {
	b, ok := t.Underlying().(*types.Basic)
	return ok && b.Info()&types.IsUnsigned == 0 && b.Info()&types.IsInteger != 0
}

func (st *State) valEq(a, b Value) *Term {
	switch x := a.(type) {
	case *Term:
		y, ok := b.(*Term)
		if !ok {
			st.fail("valEq: scalar vs non-scalar")
			abort()
		}
		return Eq(x, y)
	case Ptr:
		if y, ok := b.(SymPtr); ok {
			return st.valEq(y, x)
		}
		return B(x == b.(Ptr))
	case SymPtr:
		switch y := b.(type) {
		case Ptr:
			if y.Blk != x.Blk || (y.Off-x.Base)%x.Stride != 0 {
				return B(false) // a symbolic element address is never nil nor in another block
			}
			return Eq(x.Idx, C(x.Idx.W, uint64((y.Off-x.Base)/x.Stride)))
		case SymPtr:
			if y.Blk != x.Blk {
				return B(false)
			}
			if y.Base == x.Base && y.Stride == x.Stride && y.Idx.W == x.Idx.W {
				return Eq(x.Idx, y.Idx)
			}
		}
		st.fail("valEq: unsupported comparison of symbolic element addresses")
		abort()
	case Str:
		return B(x == b.(Str))
	case Struct:
		y := b.(Struct)
		r := B(true)
		for i := range x {
			r = And(r, st.valEq(x[i], y[i]))
		}
		return r
	case Iface:
		y := b.(Iface)
		if x.T == nil || y.T == nil {
			return B(x.T == nil && y.T == nil)
		}
		if !types.Identical(x.T, y.T) {
			return B(false)
		}
		return st.valEq(x.V, y.V)
	case RType:
		return B(types.Identical(x.T, b.(RType).T))
	case MapRef:
		return B(x == b.(MapRef))
	case *Closure:
		y := b.(*Closure)
		if x == nil || y == nil {
			return B(x == nil && y == nil)
		}
		st.fail("comparison of non-nil funcs")
		abort()
	case Slice:
		y := b.(Slice)
		if x.P.Blk == 0 || y.P.Blk == 0 {
			return B(x.P.Blk == 0 && y.P.Blk == 0)
		}
		st.fail("comparison of non-nil slices")
		abort()
	case nil:
		return B(isZeroVal(b))
	}
	st.fail(fmt.Sprintf("valEq: unsupported %T", a))
	abort()
	return nil
}

func (st *State) binop(op token.Token, xt types.Type, a, b Value, yt types.Type) Value {
	switch op {
	case token.EQL:
		return st.valEq(a, b)
	case token.NEQ:
		return Not(st.valEq(a, b))
	}
	if sa, ok := a.(Str); ok {
		sb := b.(Str)
		switch op {
		case token.ADD:
			return sa + sb
		case token.LSS:
			return B(sa < sb)
		case token.GTR:
			return B(sa > sb)
		case token.LEQ:
			return B(sa <= sb)
		case token.GEQ:
			return B(sa >= sb)
		}
	}
	x, ok1 := a.(*Term)
	y, ok2 := b.(*Term)
	if !ok1 || !ok2 {
		st.fail(fmt.Sprintf("binop %s on %T,%T", op, a, b))
		abort()
	}
	if bt, ok := xt.Underlying().(*types.Basic); ok && bt.Info()&types.IsFloat != 0 {
		st.fail("floating point arithmetic unsupported")
		abort()
	}
	signed := isSigned(xt)
	switch op {
	case token.ADD:
		return Bin(OAdd, x, y)
	case token.SUB:
		return Bin(OSub, x, y)
	case token.MUL:
		return Bin(OMul, x, y)
	case token.QUO, token.REM:
		if st.decide(Eq(y, C(y.W, 0))) {
			st.throwRuntime("integer divide by zero")
		}
		if signed {
			if op == token.QUO {
				return Bin(OSDiv, x, y)
			}
			return Bin(OSRem, x, y)
		}
		if op == token.QUO {
			return Bin(OUDiv, x, y)
		}
		return Bin(OURem, x, y)
	case token.AND:
		if x.W == 0 {
			return And(x, y)
		}
		return Bin(OBAnd, x, y)
	case token.OR:
		if x.W == 0 {
			return Or(x, y)
		}
		return Bin(OBOr, x, y)
	case token.XOR:
		return Bin(OBXor, x, y)
	case token.AND_NOT:
		return Bin(OBAnd, x, BNot(y))
	case token.SHL, token.SHR:
		// shift count: unsigned semantic; negative signed count panics
		if isSigned(yt) {
			if st.decide(Cmp(OSlt, y, C(y.W, 0))) {
				st.throwRuntime("negative shift amount")
			}
		}
		var cnt *Term
		big := B(false)
		if y.W > x.W {
			big = Cmp(OUle, C(y.W, uint64(x.W)), y)
			cnt = Extract(y, x.W-1, 0)
		} else {
			cnt = ZExt(y, x.W)
		}
		var r *Term
		if op == token.SHL {
			r = Bin(OShl, x, cnt)
			return Ite(big, C(x.W, 0), r)
		}
		if signed {
			r = Bin(OAShr, x, cnt)
			return Ite(big, Bin(OAShr, x, C(x.W, uint64(x.W-1))), r)
		}
		r = Bin(OLShr, x, cnt)
		return Ite(big, C(x.W, 0), r)
	case token.LSS:
		if signed {
			return Cmp(OSlt, x, y)
		}
		return Cmp(OUlt, x, y)
	case token.LEQ:
		if signed {
			return Cmp(OSle, x, y)
		}
		return Cmp(OUle, x, y)
	case token.GTR:
		if signed {
			return Cmp(OSlt, y, x)
		}
		return Cmp(OUlt, y, x)
	case token.GEQ:
		if signed {
			return Cmp(OSle, y, x)
		}
		return Cmp(OUle, y, x)
	}
	st.fail("unsupported binop " + op.String())
	abort()
	return nil
}

func (st *State) unop(f *Frame, x *ssa.UnOp) Value {
	v := st.get(f, x.X)
	switch x.Op {
	case token.MUL:
		if sp, ok := v.(SymPtr); ok {
			var r *Term
			for i := sp.N - 1; i >= 0; i-- {
				e := st.Load(Ptr{sp.Blk, sp.Base + i*sp.Stride}, x.Type()).(*Term)
				if r == nil {
					r = e
				} else {
					r = Ite(Eq(sp.Idx, C(64, uint64(i))), e, r)
				}
			}
			return r
		}
		p := v.(Ptr)
		return st.Load(p, x.Type())
	case token.NOT:
		return Not(v.(*Term))
	case token.SUB:
		return Neg(v.(*Term))
	case token.XOR:
		return BNot(v.(*Term))
	}
	st.fail("unsupported unop " + x.Op.String())
	abort()
	return nil
}

func (st *State) convert(v Value, from, to types.Type) Value {
	fu, tu := from.Underlying(), to.Underlying()
	if tp, ok := tu.(*types.TypeParam); ok {
		_ = tp
		st.fail("conversion to type parameter")
		abort()
	}
	switch t := tu.(type) {
	case *types.Basic:
		if t.Kind() == types.UnsafePointer {
			if p, ok := v.(Ptr); ok {
				return p
			}
			st.fail("uintptr -> unsafe.Pointer conversion unsupported")
			abort()
		}
		if t.Info()&types.IsString != 0 {
			if s, ok := v.(Str); ok {
				return s
			}
			if x, ok := v.(*Term); ok && x.Op == OConst {
				return Str(string(rune(x.K)))
			}
			st.fail("string conversion unsupported")
			abort()
		}
		if t.Info()&types.IsInteger != 0 {
			x, ok := v.(*Term)
			if !ok {
				if p, isP := v.(Ptr); isP {
					// pointer -> uintptr: give a synthetic address (block id based)
					return C(64, uint64(p.Blk)<<32+uint64(p.Off))
				}
				st.fail(fmt.Sprintf("int conversion of %T", v))
				abort()
			}
			if fb, ok := fu.(*types.Basic); ok && fb.Info()&types.IsFloat != 0 {
				st.fail("float->int conversion unsupported")
				abort()
			}
			w := uint8(sizes.Sizeof(to) * 8)
			if w <= x.W {
				return Extract(x, w-1, 0)
			}
			if isSigned(from) {
				return SExt(x, w)
			}
			return ZExt(x, w)
		}
		if t.Info()&types.IsFloat != 0 {
			st.fail("conversion to float unsupported")
			abort()
		}
	case *types.Pointer:
		if p, ok := v.(Ptr); ok {
			return p
		}
	case *types.Slice:
		if s, ok := v.(Str); ok {
			// string -> []byte
			b := st.newBlock(int64(len(s)), types.Typ[types.Uint8], int64(len(s)), BHeap)
			blk := st.blocks[b]
			for i := 0; i < len(s); i++ {
				st.setCell(blk, int64(i), 1, C(8, uint64(s[i])))
			}
			return Slice{P: Ptr{Blk: b}, Len: int64(len(s)), Cap: int64(len(s))}
		}
	}
	st.fail(fmt.Sprintf("unsupported conversion %s -> %s", from, to))
	abort()
	return nil
}

func (st *State) boundsCheck(idx *Term, n int64, what string) int64 {
	w := idx.W
	// Go int indices are signed; treat index as signed of its width
	oob := Or(Cmp(OSlt, idx, C(w, 0)), Cmp(OSle, C(w, uint64(n)), idx))
	if w < 64 {
		// unsigned small types (uint8 index etc.) are handled by caller via zext
	}
	if st.decide(oob) {
		iv := st.evalModel(idx)
		st.throwRuntime(fmt.Sprintf("index out of range [%d] with length %d", sx64(w, iv), n))
	}
	return int64(st.concretize(idx))
}

func (st *State) idxTerm(f *Frame, v ssa.Value) *Term {
	t := st.term(f, v)
	if t.W < 64 {
		if isSigned(v.Type()) {
			t = SExt(t, 64)
		} else {
			t = ZExt(t, 64)
		}
	}
	return t
}

func scalarElem(t types.Type) bool {
	b, ok := t.Underlying().(*types.Basic)
	return ok && b.Info()&(types.IsInteger|types.IsBoolean) != 0
}

// symIndex returns a SymPtr for a symbolic index into a small scalar array.
func (st *State) symIndex(base Ptr, idx *Term, n int64, et types.Type) (Value, bool) {
	if idx.Op == OConst || n > 16 || n < 1 || !scalarElem(et) || st.run.Opts.NoSymPtr {
		return nil, false
	}
	oob := Or(Cmp(OSlt, idx, C(64, 0)), Cmp(OSle, C(64, uint64(n)), idx))
	if st.decide(oob) {
		iv := st.evalModel(idx)
		st.throwRuntime(fmt.Sprintf("index out of range [%d] with length %d", int64(iv), n))
	}
	return SymPtr{Blk: base.Blk, Base: base.Off, Stride: sizeof(et), Idx: idx, N: n}, true
}

func (st *State) indexAddr(f *Frame, x *ssa.IndexAddr) Value {
	base := st.get(f, x.X)
	idx := st.idxTerm(f, x.Index)
	switch t := x.X.Type().Underlying().(type) {
	case *types.Pointer:
		arr := t.Elem().Underlying().(*types.Array)
		p := st.concPtr(base)
		if p.Blk == 0 {
			st.throwNilDeref()
		}
		if sp, ok := st.symIndex(p, idx, arr.Len(), arr.Elem()); ok {
			return sp
		}
		i := st.boundsCheck(idx, arr.Len(), "array")
		return Ptr{p.Blk, p.Off + i*sizeof(arr.Elem())}
	case *types.Slice:
		s := base.(Slice)
		if sp, ok := st.symIndex(s.P, idx, s.Len, t.Elem()); ok {
			return sp
		}
		i := st.boundsCheck(idx, s.Len, "slice")
		return Ptr{s.P.Blk, s.P.Off + i*sizeof(t.Elem())}
	}
	st.fail("indexAddr: unsupported base")
	abort()
	return nil
}

// concPtr turns a possibly symbolic pointer into a concrete one (forking).
func (st *State) concPtr(v Value) Ptr {
	switch p := v.(type) {
	case Ptr:
		return p
	case SymPtr:
		i := int64(st.concretize(p.Idx))
		return Ptr{p.Blk, p.Base + i*p.Stride}
	}
	st.fail(fmt.Sprintf("expected pointer, got %T", v))
	abort()
	return Ptr{}
}

func (st *State) index(f *Frame, x *ssa.Index) Value {
	base := st.get(f, x.X)
	idx := st.idxTerm(f, x.Index)
	switch b := base.(type) {
	case Struct:
		// symbolic read of a small scalar array: ite chain (no fork)
		if idx.Op != OConst && len(b) > 0 && len(b) <= 64 {
			if _, ok := b[0].(*Term); ok {
				oob := Or(Cmp(OSlt, idx, C(64, 0)), Cmp(OSle, C(64, uint64(len(b))), idx))
				if st.decide(oob) {
					st.throwRuntime("index out of range")
				}
				r := b[len(b)-1].(*Term)
				for i := len(b) - 2; i >= 0; i-- {
					r = Ite(Eq(idx, C(64, uint64(i))), b[i].(*Term), r)
				}
				return r
			}
		}
		i := st.boundsCheck(idx, int64(len(b)), "array")
		return b[i]
	case Str:
		i := st.boundsCheck(idx, int64(len(b)), "string")
		return C(8, uint64(b[i]))
	}
	st.fail("index: unsupported base")
	abort()
	return nil
}

func (st *State) sliceOp(f *Frame, x *ssa.Slice) Value {
	base := st.get(f, x.X)
	var lo, hi, mx int64
	var p Ptr
	var ln, cp int64
	var es int64
	isStr := false
	switch t := x.X.Type().Underlying().(type) {
	case *types.Slice:
		s := base.(Slice)
		p, ln, cp = s.P, s.Len, s.Cap
		es = sizeof(t.Elem())
	case *types.Pointer:
		arr := t.Elem().Underlying().(*types.Array)
		p = base.(Ptr)
		if p.Blk == 0 {
			st.throwNilDeref()
		}
		ln, cp = arr.Len(), arr.Len()
		es = sizeof(arr.Elem())
	case *types.Basic:
		isStr = true
		ln = int64(len(base.(Str)))
		cp = ln
	default:
		st.fail("slice: unsupported base")
		abort()
	}
	getc := func(v ssa.Value, def int64) (*Term, bool) {
		if v == nil {
			return C(64, uint64(def)), false
		}
		return st.idxTerm(f, v), true
	}
	lot, _ := getc(x.Low, 0)
	hit, hasHi := getc(x.High, ln)
	mxt, hasMax := getc(x.Max, cp)
	// bounds: 0 <= lo <= hi <= max <= cap
	upper := cp
	if isStr {
		upper = ln
	}
	bad := Or(Cmp(OSlt, lot, C(64, 0)), Cmp(OSlt, hit, lot))
	bad = Or(bad, Cmp(OSlt, mxt, hit))
	bad = Or(bad, Cmp(OSlt, C(64, uint64(upper)), mxt))
	if !hasMax {
		bad = Or(Or(Cmp(OSlt, lot, C(64, 0)), Cmp(OSlt, hit, lot)), Cmp(OSlt, C(64, uint64(upper)), hit))
	}
	_ = hasHi
	if st.decide(bad) {
		st.throwRuntime("slice bounds out of range")
	}
	lo = int64(st.concretize(lot))
	hi = int64(st.concretize(hit))
	mx = int64(st.concretize(mxt))
	if isStr {
		return Str(string(base.(Str))[lo:hi])
	}
	np := Ptr{p.Blk, p.Off + lo*es}
	if p.Blk == 0 {
		np = Ptr{}
	}
	if mx-lo == 0 && p.Blk != 0 {
		// Go keeps the pointer; fine
	}
	return Slice{P: np, Len: hi - lo, Cap: mx - lo}
}

func (st *State) typeAssert(f *Frame, x *ssa.TypeAssert) Value {
	v := st.get(f, x.X).(Iface)
	ok := false
	var res Value
	if _, isIface := x.AssertedType.Underlying().(*types.Interface); isIface {
		if v.T != nil {
			if v.T == rtypeMarker {
				ok = isReflectType(x.AssertedType) || x.AssertedType.Underlying().(*types.Interface).NumMethods() == 0
			} else {
				ok = types.Implements(v.T, x.AssertedType.Underlying().(*types.Interface))
			}
		}
		res = v
		if !ok {
			res = Iface{}
		}
	} else {
		ok = v.T != nil && v.T != rtypeMarker && types.Identical(v.T, x.AssertedType)
		if ok {
			res = v.V
		} else {
			res = zeroValue(x.AssertedType)
		}
	}
	if x.CommaOk {
		return Tuple{res, B(ok)}
	}
	if !ok {
		dyn := "nil"
		if v.T != nil {
			dyn = v.T.String()
		}
		st.throwRuntime(fmt.Sprintf("interface conversion: interface is %s, not %s", dyn, x.AssertedType))
	}
	return res
}

// ---- maps ----

func (st *State) mapObj(m MapRef) *MapObj {
	if m == 0 {
		return nil
	}
	return st.blocks[int(m)].M
}

// mapFind returns the entry index matching key, deciding symbolic equalities.
func (st *State) mapFind(mo *MapObj, key Value) int {
	for i, e := range mo.Entries {
		eq := st.valEq(e.K, key)
		if eq.Op == OConst {
			if eq.K != 0 {
				return i
			}
			continue
		}
		if st.decide(eq) {
			return i
		}
	}
	return -1
}

func (st *State) lookup(f *Frame, x *ssa.Lookup) Value {
	base := st.get(f, x.X)
	if s, ok := base.(Str); ok {
		idx := st.idxTerm(f, x.Index)
		i := st.boundsCheck(idx, int64(len(s)), "string")
		return C(8, uint64(s[i]))
	}
	m := base.(MapRef)
	mt := x.X.Type().Underlying().(*types.Map)
	key := st.get(f, x.Index)
	var val Value
	found := false
	if mo := st.mapObj(m); mo != nil {
		st.noteRead(int(m))
		if i := st.mapFind(mo, key); i >= 0 {
			val = mo.Entries[i].V
			found = true
		}
	}
	if !found {
		val = zeroValue(mt.Elem())
	}
	if x.CommaOk {
		return Tuple{val, B(found)}
	}
	return val
}

func (st *State) mapUpdate(m MapRef, key, val Value) {
	if m == 0 {
		st.throwRuntime("assignment to entry in nil map")
	}
	mo := st.mapObj(m)
	i := st.mapFind(mo, key)
	st.noteWrite(int(m))
	b := st.wblock(int(m))
	if i >= 0 {
		b.M.Entries[i].V = val
	} else {
		b.M.Entries = append(b.M.Entries, MapEntry{key, val})
	}
}

func (st *State) mapDelete(m MapRef, key Value) {
	mo := st.mapObj(m)
	if mo == nil {
		return
	}
	i := st.mapFind(mo, key)
	if i < 0 {
		return
	}
	st.noteWrite(int(m))
	b := st.wblock(int(m))
	b.M.Entries = append(b.M.Entries[:i:i], b.M.Entries[i+1:]...)
}

// map iteration: the order is a nondeterministic choice (see C13).
type rangeIter struct {
	m      MapRef
	remain []MapEntry
	str    Str
	pos    int
	isStr  bool
}

func (st *State) rangeInit(f *Frame, x *ssa.Range) Value {
	base := st.get(f, x.X)
	if s, ok := base.(Str); ok {
		return &rangeIter{str: s, isStr: true}
	}
	m := base.(MapRef)
	it := &rangeIter{m: m}
	if mo := st.mapObj(m); mo != nil {
		it.remain = append([]MapEntry(nil), mo.Entries...)
	}
	if len(it.remain) > 1 {
		st.run.mapRangeSites.Store(st.run.P.Prog.Fset.Position(x.Pos()).String(), f.fi.fn.String())
	}
	return it
}

func (st *State) rangeNext(f *Frame, x *ssa.Next) Value {
	it := st.get(f, x.Iter).(*rangeIter)
	if it.isStr {
		if it.pos >= len(it.str) {
			return Tuple{B(false), C(64, 0), C(32, 0)}
		}
		i := it.pos
		it2 := *it
		it2.pos++
		st.set(f, x.Iter, &it2)
		return Tuple{B(true), C(64, uint64(i)), C(32, uint64(it.str[i]))}
	}
	// entries removed from the map since the range started are not produced (Go spec)
	if mo := st.mapObj(it.m); mo != nil && len(it.remain) > 0 {
		kept := make([]MapEntry, 0, len(it.remain))
		for _, e := range it.remain {
			if j := st.mapFind(mo, e.K); j >= 0 {
				kept = append(kept, mo.Entries[j]) // current value of the entry
			}
		}
		it = &rangeIter{m: it.m, remain: kept}
	}
	if len(it.remain) == 0 {
		return Tuple{B(false), nil, nil}
	}
	k := 0
	if len(it.remain) > 1 && st.run.Opts.MapOrderChoice && !st.mapFixed {
		// the symbol is parked in the state so that the child of the fork re-uses it
		ch := st.pendingChoice("maporder", uint64(len(it.remain)))
		k = int(st.concretize(ch))
		st.choices = &choiceList{fmt.Sprintf("maporder=%d/%d", k, len(it.remain)), st.choices}
		st.clearPending()
	}
	e := it.remain[k]
	it2 := &rangeIter{m: it.m}
	it2.remain = append(append([]MapEntry(nil), it.remain[:k]...), it.remain[k+1:]...)
	st.set(f, x.Iter, it2)
	return Tuple{B(true), e.K, e.V}
}

// ---- calls ----

func (st *State) call(f *Frame, x *ssa.Call) {
	c := x.Common()
	args := make([]Value, 0, len(c.Args)+1)
	var fn *ssa.Function
	var bind []Value
	if c.IsInvoke() {
		recv, ok := st.get(f, c.Value).(Iface)
		if !ok || recv.T == nil {
			st.throwNilDeref()
		}
		for _, a := range c.Args {
			args = append(args, st.get(f, a))
		}
		if recv.T == rtypeMarker {
			res := st.rtypeMethod(c.Method.Name(), recv.V.(RType), args)
			st.deliver(f, res)
			return
		}
		fn = st.run.P.lookupMethod(recv.T, c.Method)
		if fn == nil {
			st.fail("method not found: " + c.Method.Name() + " on " + recv.T.String())
			abort()
		}
		args = append([]Value{recv.V}, args...)
	} else {
		for _, a := range c.Args {
			av := st.get(f, a)
			if _, ok := av.(SymPtr); ok {
				av = st.concPtr(av)
			}
			args = append(args, av)
		}
		switch v := c.Value.(type) {
		case *ssa.Builtin:
			res := st.builtin(f, v.Name(), c, args)
			st.deliver(f, res)
			return
		case *ssa.Function:
			fn = v
		default:
			cl, _ := st.get(f, v).(*Closure)
			if cl == nil {
				st.throwNilDeref()
			}
			if cl.Native != "" {
				st.fail("call of native closure " + cl.Native)
				abort()
			}
			fn, bind = cl.Fn, cl.Bind
		}
	}
	meta := st.run.P.fnMeta(fn)
	if meta.intr != nil {
		meta.intr(st, f, x, args)
		return
	}
	if len(fn.Blocks) == 0 {
		if fn.Name() == "init" {
			st.deliver(f, nil)
			return
		}
		st.fail("call of external function without intrinsic: " + fn.String())
		abort()
	}
	if len(bind) == 0 && !st.run.Opts.NoMerge && st.run.P.pureFn(fn) {
		if res, ok := st.tryPureCall(fn, args); ok {
			st.deliver(f, res)
			return
		}
	}
	st.pushFrame(fn, args, bind)
}

// tryPureCall evaluates a side-effect-free callee on all of its paths at once.
func (st *State) tryPureCall(fn *ssa.Function, args []Value) (res Value, ok bool) {
	st.spec = true
	defer func() {
		st.spec = false
		if e := recover(); e != nil {
			if _, isSpec := e.(specAbort); isSpec {
				ok = false
				return
			}
			panic(e)
		}
	}()
	res = st.evalPureFn(fn, args, 0)
	st.run.merges.Add(1)
	return res, true
}

func (st *State) builtin(f *Frame, name string, c *ssa.CallCommon, args []Value) Value {
	switch name {
	case "len":
		switch v := args[0].(type) {
		case Slice:
			return C(64, uint64(v.Len))
		case Str:
			return C(64, uint64(len(v)))
		case MapRef:
			if mo := st.mapObj(v); mo != nil {
				return C(64, uint64(len(mo.Entries)))
			}
			return C(64, 0)
		case Struct:
			return C(64, uint64(len(v)))
		case Ptr: // pointer to array
			return C(64, uint64(elemOfPtr(c.Args[0].Type()).Underlying().(*types.Array).Len()))
		}
	case "cap":
		switch v := args[0].(type) {
		case Slice:
			return C(64, uint64(v.Cap))
		case Struct:
			return C(64, uint64(len(v)))
		}
	case "append":
		return st.appendOp(c, args)
	case "copy":
		dst := args[0].(Slice)
		var n int64
		es := sizeof(c.Args[0].Type().Underlying().(*types.Slice).Elem())
		if s, ok := args[1].(Str); ok {
			n = int64(len(s))
			if dst.Len < n {
				n = dst.Len
			}
			for i := int64(0); i < n; i++ {
				st.Store(Ptr{dst.P.Blk, dst.P.Off + i}, types.Typ[types.Uint8], C(8, uint64(s[i])))
			}
			return C(64, uint64(n))
		}
		src := args[1].(Slice)
		n = src.Len
		if dst.Len < n {
			n = dst.Len
		}
		if n > 0 {
			st.copyBytes(dst.P, src.P, n*es)
		}
		return C(64, uint64(n))
	case "delete":
		st.mapDelete(args[0].(MapRef), args[1])
		return nil
	case "print", "println":
		return nil
	case "min", "max":
		r := args[0].(*Term)
		signed := isSigned(c.Args[0].Type())
		for _, a := range args[1:] {
			t := a.(*Term)
			x, y := t, r // min: pick t if t < r
			if name == "max" {
				x, y = r, t // max: pick t if r < t
			}
			var lt *Term
			if signed {
				lt = Cmp(OSlt, x, y)
			} else {
				lt = Cmp(OUlt, x, y)
			}
			r = Ite(lt, t, r)
		}
		return r
	case "clear":
		switch v := args[0].(type) {
		case MapRef:
			if v != 0 {
				b := st.wblock(int(v))
				b.M.Entries = nil
			}
		case Slice:
			es := sizeof(c.Args[0].Type().Underlying().(*types.Slice).Elem())
			st.zeroBytes(v.P, v.Len*es)
		}
		return nil
	case "ssa:wrapnilchk":
		if p, ok := args[0].(Ptr); ok && p.Blk == 0 {
			st.throwNilDeref()
		}
		return args[0]
	case "Add": // unsafe.Add
		p := args[0].(Ptr)
		off := args[1].(*Term)
		if off.W < 64 {
			if isSigned(c.Args[1].Type()) {
				off = SExt(off, 64)
			} else {
				off = ZExt(off, 64)
			}
		}
		o := int64(st.concretize(off))
		if p.Blk == 0 {
			if o == 0 {
				return Ptr{}
			}
			st.memViolation("unsafe.Add on nil pointer")
		}
		return Ptr{p.Blk, p.Off + o}
	case "recover":
		// stops a panic when called from a deferred function of a panicking frame
		for i := len(st.frames) - 2; i >= 0; i-- {
			if st.frames[i].panicking && !st.recovered {
				st.recovered = true
				if pv, ok := st.panicV.(Iface); ok {
					return pv
				}
				return Iface{}
			}
		}
		return Iface{}
	}
	st.fail("unsupported builtin " + name)
	abort()
	return nil
}

// appendOp implements append with the gc runtime's growth policy.
func (st *State) appendOp(c *ssa.CallCommon, args []Value) Value {
	s := args[0].(Slice)
	et := c.Args[0].Type().Underlying().(*types.Slice).Elem()
	es := sizeof(et)
	var addLen int64
	var src Slice
	var srcStr Str
	isStr := false
	switch v := args[1].(type) {
	case Slice:
		src = v
		addLen = v.Len
	case Str:
		srcStr = v
		isStr = true
		addLen = int64(len(v))
	default:
		st.fail("append: bad second arg")
		abort()
	}
	if addLen == 0 {
		return s
	}
	newLen := s.Len + addLen
	res := s
	if newLen > s.Cap {
		newCap := growCap(s.Cap, newLen, es, len(ptrSlots(et)) == 0)
		b := st.newBlock(newCap*es, et, newCap, BHeap)
		st.blocks[b].Name = "append " + et.String()
		np := Ptr{Blk: b}
		if s.Len > 0 {
			st.copyBytes(np, s.P, s.Len*es)
		}
		res = Slice{P: np, Len: s.Len, Cap: newCap}
	}
	dst := Ptr{res.P.Blk, res.P.Off + s.Len*es}
	if isStr {
		for i := 0; i < len(srcStr); i++ {
			st.Store(Ptr{dst.Blk, dst.Off + int64(i)}, types.Typ[types.Uint8], C(8, uint64(srcStr[i])))
		}
	} else {
		st.copyBytes(dst, src.P, addLen*es)
	}
	res.Len = newLen
	return res
}

// growCap ports runtime.growslice's capacity computation (go1.20+), including
// size-class rounding for the gc runtime.
func growCap(oldCap, newLen, es int64, noscan bool) int64 {
	newcap := nextslicecap(newLen, oldCap)
	if es == 0 {
		return newcap
	}
	mem := newcap * es
	mem = roundupsize(mem, noscan)
	return mem / es
}

func nextslicecap(newLen, oldCap int64) int64 {
	newcap := oldCap
	doublecap := newcap + newcap
	if newLen > doublecap {
		return newLen
	}
	const threshold = 256
	if oldCap < threshold {
		return doublecap
	}
	for {
		newcap += (newcap + 3*threshold) >> 2
		if uint64(newcap) >= uint64(newLen) {
			break
		}
	}
	if newcap <= 0 {
		return newLen
	}
	return newcap
}

var sizeClasses = []int64{0, 8, 16, 24, 32, 48, 64, 80, 96, 112, 128, 144, 160, 176, 192, 208, 224, 240, 256, 288, 320, 352, 384, 416, 448, 480, 512, 576, 640, 704, 768, 896, 1024, 1152, 1280, 1408, 1536, 1792, 2048, 2304, 2688, 3072, 3200, 3456, 4096, 4864, 5376, 6144, 6528, 6784, 6912, 8192, 9472, 9728, 10240, 10880, 12288, 13568, 14336, 16384, 18432, 19072, 20480, 21760, 24576, 27264, 28672, 32768}

// roundupsize ports runtime.roundupsize (go1.22+): objects with pointers larger
// than 512 bytes carry an 8-byte malloc header inside their size class.
func roundupsize(n int64, noscan bool) int64 {
	const mallocHeaderSize, minSizeForMallocHeader, maxSmallSize = 8, 512, 32768
	req := n
	if req <= maxSmallSize-mallocHeaderSize {
		if !noscan && req > minSizeForMallocHeader {
			req += mallocHeaderSize
		}
		for _, c := range sizeClasses {
			if c >= req {
				return c - (req - n)
			}
		}
	}
	// large: round up to page size (8192)
	return (req + 8191) &^ 8191
}
