package main

import "strings"

func hs(pkg string, tagsBoth bool, w int, names ...string) []H {
	var out []H
	for _, n := range names {
		cross := strings.HasPrefix(n, "HC04_") || n == "HC12_Subscribes" || n == "HC12_SubscriptionBits" || n == "HC12_ListenerCopy" || n == "HC12_Callback"
		out = append(out, H{Pkg: pkg, Fn: n, W: w, Cross: cross})
		if tagsBoth {
			out = append(out, H{Pkg: pkg, Fn: n, W: w, Tags: "tiny", Cross: cross})
		}
	}
	return out
}

var smokeConform = []H{{Pkg: "ecs", Fn: "HSmoke"}}

// stdConform: translator validation run by every check (engine log == native log).
var stdConform = []H{{Pkg: "ecs", Fn: "HSmoke"}, {Pkg: "ecs", Fn: "HConf_Prefixes"}, {Pkg: "ecs", Fn: "HConf_Append"}, {Pkg: "ecs", Fn: "HConf_Batch"}, {Pkg: "ecs", Fn: "HConf_Events"}, {Pkg: "ecs", Fn: "HConf_Defer"},
	{Pkg: "ecs", Fn: "HConf_Prefixes", Tags: "tiny"}, {Pkg: "ecs", Fn: "HConf_Batch", Tags: "tiny"}, {Pkg: "generic", Fn: "HConf_Generic"}}

var props = []Prop{
	{
		ID:    "C04",
		Level: "proof",
		Harnesses: hs("ecs", true, 1, "HC04_Get", "HC04_Set", "HC04_Not", "HC04_AndOrXor", "HC04_Contains", "HC04_ContainsAny",
			"HC04_IsZeroReset", "HC04_TotalBitsSet", "HC04_All", "HC04_MaskMatches", "HC04_MaskFilter", "HC04_Without", "HC04_Exclusive", "HC04_Equality"),
		Extra: append(hs("filter", true, 1, "HC04_Leaves", "HC04_LeafSemantics"), H{Pkg: "filter", Fn: "HC04_Logic"}, H{Pkg: "filter", Fn: "HC04_Logic", Tags: "tiny", Tier: "thorough"}, H{Pkg: "ecs", Fn: "HConf_Bits", W: 1}),
		Conform: stdConform,
		Bounds:  "masks and ids fully symbolic (all 2^256 / 2^64 masks, all 256 / 64 ids); All/Without with at most 4/3 ids; logic filters nested to depth 2 (all shapes) and depth 3 (spines)",
		Outside: "All() with more than 4 ids; logic nesting deeper than 3; tiny build behaviour for ids >= 64",
	},
	{
		ID:    "C12",
		Level: "model_checking",
		Harnesses: append(hs("ecs", true, 4, "HC12_Subscribes", "HC12_SubscriptionBits"),
			append(hs("listener", true, 4, "HC12_ListenerCopy", "HC12_Callback"), H{Pkg: "listener", Fn: "HC12_Dispatch"}, H{Pkg: "listener", Fn: "HC12_Dispatch", Tags: "tiny", Tier: "thorough"}, H{Pkg: "listener", Fn: "HC12_DispatchWorld"}, H{Pkg: "ecs", Fn: "HC12_World"})...),
		Conform: stdConform,
		Bounds:  "(a) subscribes()/listener copy/subscription bits: all triggers, masks, nil-ness and relation ids (complete); Dispatch: 3 sub-listeners with symbolic (S,C), three construction orders, one symbolic event; a Dispatch installed in a world (before or after its first sub-listener was added; a second sub-listener joins while installed) against twin worlds where the same listeners are installed alone, fully symbolic subscriptions, 3 x 2 component restrictions, a fixed sequence of 10 operations, logs compared entry by entry (type bits, entity, added mask); (b) world level: a listener with fully symbolic subscription mask S and a symbolic component restriction C (or none) installed after 2 (thorough 5) prefixes, one operation out of the single-entity (11 kinds), batch (5 families with Q variants) and removal/retarget families with every legal argument: every predicted full event (C11 oracle) is delivered iff the documented rule selects it, with exact content",
		Outside: "Dispatch with more than 3 sub-listeners",
	},
	{
		ID: "C01",
		Harnesses: []H{{Pkg: "ecs", Fn: "HC01_Step"}, {Pkg: "ecs", Fn: "HC01_Step", Tags: "tiny", Tier: "thorough"}, {Pkg: "ecs", Fn: "HC08_Batch"}, {Pkg: "ecs", Fn: "HC01_TwoSmall"}, {Pkg: "ecs", Fn: "HDeep"}, {Pkg: "ecs", Fn: "HDeep", Tags: "tiny"}, {Pkg: "ecs", Fn: "HManyTables"}, {Pkg: "ecs", Fn: "HPagedSlice"}, {Pkg: "ecs", Fn: "HC01_IDMap", W: 4}, {Pkg: "ecs", Fn: "HC01_IDMap", W: 4, Tags: "tiny"}, {Pkg: "ecs", Fn: "HBig", W: 4}, {Pkg: "ecs", Fn: "HBig", W: 4, Tags: "tiny"},
			{Pkg: "ecs", Fn: "HC01_TwoSmall", Tags: "tiny", Tier: "thorough"}, {Pkg: "ecs", Fn: "HC01_Two", Tier: "thorough", Minutes: 60}},
		Conform: stdConform,
		Bounds:  "8 scripted prefixes (fresh, two tables, mixed sizes incl. zero-sized, two relation parents, dead target, retired table, recycled ids depth 3, two relation types) x 1 symbolic operation out of 11 kinds with every legal argument choice (entity, add/remove subsets of 6 component types, target) x 3 configurations (quick) / 6 (thorough: all 4 ID profiles, capacity increments 1..3, relation increments 1..2); quick also runs every pair of two operations from a reduced-argument set of 6 kinds (create with values, add / remove one component, child with target, RemoveEntity, Relations.Set) on every prefix (capacity increment 1; thorough: 1..2, both builds); HManyTables / HPagedSlice: 48 component-set tables and 36 relation tables in one node (beyond the 32-element pages of the table storage) with symbolic payloads, followed by one removal / retarget / batch removal of the relation / death of parents; paged storage lemmas for 1..65 elements with symbolic index; HDeep: every history of 3 (thorough 4) operations from an EMPTY world out of 10 reduced-argument kinds (create plain / with values / child with target, RemoveEntity, retarget, add/remove a component, Reset, Batch.RemoveEntities by mask / relation filter, batch SetRelation, batch add/remove of a component incl. Q variants) with a registered filter watching, 2 ID profiles x 2 capacity increments; thorough adds pairs (any operation with every legal argument, then a reduced-argument operation) on 3 prefixes with ids crossing the 16-id chunk, and the tiny build of the one-step harnesses; payload words fully symbolic; at most 10 entities",
		Outside: "histories longer than prefix+2 operations; more than 10 entities in the symbolic harnesses (HManyTables: 100 entities / 84 tables, HBig: one scripted history with 300 entities in one table, ids above 255 as targets, 20 ids per call, 70 registered filters, capacity increments 1 / 7 / 128); more than 65535 entities (a 16-bit narrowing of entity counts or rows would not be seen); component types other than the 6 of the universe; capacity increments > 3 elsewhere",
	},
	{
		ID: "C02",
		Harnesses: []H{{Pkg: "ecs", Fn: "HC02_PoolGet"}, {Pkg: "ecs", Fn: "HC02_PoolRecycle"}, {Pkg: "ecs", Fn: "HC02_PoolRecycleWrap", NoSample: true}, {Pkg: "ecs", Fn: "HC02_IntPool", W: 4},
			{Pkg: "ecs", Fn: "HC02_World"}, {Pkg: "ecs", Fn: "HC02_WorldRel"}, {Pkg: "ecs", Fn: "HBig", W: 4}, {Pkg: "ecs", Fn: "HC02_World", Tags: "tiny", Tier: "thorough"}},
		Conform: stdConform,
		Bounds:  "(a) entityPool.Get/Recycle one-step lemmas from an arbitrary well-formed pool: up to 6 slots, every free-list shape, fully symbolic 32-bit generations (bounded claim: generations < 2^32-1; the unbounded variant HC02_PoolRecycleWrap exposes the wrap-around, a known finding), two ghost handles; intPool histories to depth 6; (b) world level: 3 prefixes (fresh / populated / free-list depth 3 with mixed generations) x 2 (thorough 3) operations out of NewEntity, NewBatch/NewBatchQ (symbolic count 1..4), RemoveEntity, Batch.RemoveEntities, Reset, DumpEntities+Reset+LoadEntities; 3 configurations; HC02_WorldRel: the same on a world with relation tables (zero target, alive or dead target, two nodes) so that Reset and filter removals meet every kind of table",
		Outside: "pools with more than 6 slots in the lemmas (the code is uniform in the slot count); generation wrap-around after 2^32 recycles of one id (known finding); more than 10 entities at world level",
	},
	{
		ID: "C08",
		Harnesses: []H{{Pkg: "ecs", Fn: "HC08_Batch"}, {Pkg: "ecs", Fn: "HC08_Batch", Tags: "tiny", Tier: "thorough"}},
		Conform: stdConform,
		Bounds:  "8 scripted prefixes x 1 symbolic batch operation (Batch.Add/Remove/Exchange, Relations.ExchangeBatch, Batch.SetRelation / Relations.SetBatch, Batch.RemoveEntities, Builder.NewBatch with count 1..3, target, component values; each with its Q variant) through 8 filter kinds (All, mask, without, exclusive, relation filters with every issued handle or zero as target) with every (add, remove) argument pair legal for all matching entities (quick: at most two components change) x 3 configurations (thorough: 24); oracle = documented single-entity effect applied to every entity matching at call time",
		Outside: "two or more batch operations in a row; more than 10 entities; batch counts > 3",
	},
	{
		ID: "C03",
		Harnesses: []H{{Pkg: "ecs", Fn: "HC03_Query"}, {Pkg: "ecs", Fn: "HC03_BatchQuery"}, {Pkg: "ecs", Fn: "HC03_Query", Tags: "tiny", Tier: "thorough"}, {Pkg: "filter", Fn: "HC03_Logic", W: 4}, {Pkg: "filter", Fn: "HC03_Logic", W: 4, Tags: "tiny"}},
		Conform: stdConform,
		Bounds:  "10 scripted prefixes (thorough: + one reduced-argument operation) x 8 filter kinds (All, mask, without, exclusive, relation filters with every issued handle / zero as target), plain and registered; per query: full iteration against the model, Count, EntityAt(i) for a fully symbolic 64-bit i, j Next calls followed by Step(s) for a fully symbolic 64-bit s; batch-result queries of ExchangeQ / SetRelationQ / NewBatchQ with all legal arguments: Count, EntityAt for every index, iteration, symbolic EntityAt / Step within the int32 range; 3 configurations (thorough 6); HC03_Logic (package filter): 10 logic-filter expressions over And/Or/XOr/Not/Any/NoneOf/AnyNot, plain and registered (with tables created after registration), on a world holding every subset of 3 components, optional removal: visited set, Count and lock release against the boolean definition",
		Outside: "logic filters beyond the 10 expressions of HC03_Logic at world level (all expressions up to nesting 2-3 are decided at the Matches level in C04; queries only call Matches); more than 10 entities; relation filters nested inside other filters (documented as unsupported)",
	},
	{
		ID: "C05",
		Harnesses: []H{{Pkg: "ecs", Fn: "HC05_Rel"}, {Pkg: "ecs", Fn: "HC05_Rel", Tags: "tiny", Tier: "thorough"}},
		Conform: stdConform,
		Bounds:  "6 relation prefixes (two parents, dead target with children, retired table, two relation types, dead target whose id was re-issued, plain tables) x 1 symbolic operation out of 8 kinds: creation with target (ids / values), Relations.Set, Relations.Exchange, Builder.Add (ids / values), NewBatch(Q) with target, batch SetRelation (4 API variants), Relations.ExchangeBatch(Q), relation calls naming the wrong component (every component incl. ID 0; Get / Set / Query.Relation), plain Exchange (relation swap/removal); the target ranges over zero, every alive handle, every dead handle, the dead handle of a re-issued id and the entity itself; legality and effect per the documentation; 3 configurations (thorough 6)",
		Outside: "two or more relation operations in a row beyond the scripted prefixes (C01's two-step harness covers pairs of single-entity operations); more than 10 entities",
	},
	{
		ID: "C06",
		Harnesses: []H{{Pkg: "ecs", Fn: "HC06_TargetDeath"}, {Pkg: "ecs", Fn: "HC06_TargetDeath", Tags: "tiny", Tier: "thorough"}, {Pkg: "ecs", Fn: "HDeep"}, {Pkg: "ecs", Fn: "HC06_BitSet", W: 2}, {Pkg: "ecs", Fn: "HC06_Stats", W: 4}},
		Conform: stdConform,
		Bounds:  "8 prefixes (two parents with children, dead target with non-empty table, retired table, two relation types, dead target with re-issued id, self-targeting entity, alive parent with active-but-empty child table, Reset over populated relation tables followed by new parents) x 1 (thorough: 2) symbolic operations out of RemoveEntity(any alive), Batch.RemoveEntities (All / mask / relation filter with any target), creation of a child (ids only or with values) for zero or any alive parent, Relations.Set, Reset, batch SetRelation, batch add/remove of other components through mask and relation filters; plus HDeep (all histories of 3, thorough 4, reduced-argument operations from an empty world incl. removals, retargeting, batch removal, Reset); after every step the structural invariant (free list without duplicates, target map = active tables, storage beyond len zero, retired tables empty and zeroed), at the end all observables vs the model incl. zero-initialised components and relation queries for every target; 3 configurations (thorough 6)",
		Outside: "more than 2 operations after the prefix; more than 10 entities",
	},
	{
		ID: "C07",
		Harnesses: []H{{Pkg: "ecs", Fn: "HC07_Before"}, {Pkg: "ecs", Fn: "HC07_After"}, {Pkg: "ecs", Fn: "HC07_Unregister", W: 4}, {Pkg: "ecs", Fn: "HDeep", Tier: "thorough"},
			{Pkg: "ecs", Fn: "HC07_Before", Tags: "tiny", Tier: "thorough"}, {Pkg: "ecs", Fn: "HC07_After", Tags: "tiny", Tier: "thorough"}, {Pkg: "generic", Fn: "HC18_Builders"}, {Pkg: "ecs", Fn: "HManyTables"}, {Pkg: "ecs", Fn: "HBig", W: 4}},
		Conform: stdConform,
		Bounds:  "filter registered before any table exists (relation targets = handles issued later) or after one of 11 prefixes (incl. retired tables, dead targets, re-issued target ids, self-target, Reset over populated relation tables); 9 filter kinds (All, mask, without, exclusive, relation filters with any issued/zero/future target, and a relation filter whose component filter also matches non-relation tables); then 1 operation out of 10: table creation, relation-table creation, RemoveEntity, Relations.Set, Reset, Reset + re-issue + new child, and Batch.RemoveEntities / Batch.Exchange(Q) / Batch.SetRelation(Q) THROUGH the registered filter; oracle: registered vs original filter on the same world (same entities, same Count), model for batch effects, cache clauses of the structural invariant; Unregister/double register/use after unregister on 3 registrations; 2 configurations (thorough 4; C10 thorough 3); registered generic filters (generic.FilterN.Register / Unregister inside symbolic builder sequences, incl. fixed relation targets) by HC18_Builders, run here too; HManyTables: a registered filter whose table list grows past one page (36 relation tables), shrinks below it and grows again; HBig: 300 registrations (filter ids beyond one byte)",
		Outside: "more than one operation after registration beyond the prefixes; logic-combination filters (the cache only calls Matches, decided in C04)",
	},
	{
		ID: "C09",
		Harnesses: []H{{Pkg: "ecs", Fn: "HC09_Depth", W: 4}, {Pkg: "ecs", Fn: "HC09_Depth", W: 4, Tags: "tiny"}, {Pkg: "ecs", Fn: "HC09_Sweep"}, {Pkg: "ecs", Fn: "HC09_Listener", W: 4},
			{Pkg: "ecs", Fn: "HC09_Sweep", Tags: "tiny", Tier: "thorough"}, {Pkg: "generic", Fn: "HC09_Generic", W: 4}, {Pkg: "ecs", Fn: "HC09_BitPool", W: 4}, {Pkg: "ecs", Fn: "HC09_BitPool", W: 4, Tags: "tiny"}},
		Conform: stdConform,
		Bounds:  "lock-bit pool lemmas from an arbitrary well-formed pool (up to 6 bits handed out, every free-list shape): bits handed out are never held, two open queries never share a bit, release is LIFO; nesting depths 1,2,3,limit-1,limit (256 / 64 in tiny) and limit+1 (must panic), three closing orders (FIFO, LIFO, mixed exhaustion/Close), re-opening 1 / depth / limit queries afterwards; sweep: 36 structural entry points (World, Builder ids/values with and without target, Batch and Relations incl. every Q variant, calls whose filter matches nothing, type registration, LoadEntities, Reset) x 4 lock sources (plain query fresh/advanced, registered filter, batch-result query, nested depth 2 with either closing order) x 5 ways of ending a query (Next exhaustion, Step beyond the end, Close, Close after Count, Close after EntityAt), and inside removal listeners (single and batch removal): refused with exactly the documented message, observables + structural digest unchanged, lock still held, success after release; generic entry points (HC09_Generic): 20 calls of Map1 / Map2 / relation-aware Map2 / Map / Exchange (New, NewWith, NewBatch(Q), Add, Assign, Remove, AddBatch(Q), RemoveBatch(Q), RemoveEntities, SetRelation(Batch), Exchange, ExchangeBatch) refused while a generic query (plain or registered, fresh or advanced) is open and succeeding after release by exhaustion / Close / Count+Close",
		Outside: "entry points reached only through generic arities > 2 (they delegate to the swept ID-based calls); lock sources nested deeper than 2 in the sweep (depth harness covers nesting up to the limit)",
	},
	{
		ID: "C10",
		Harnesses: []H{{Pkg: "ecs", Fn: "HC10_Illegal"}, {Pkg: "ecs", Fn: "HC10_Illegal", Tags: "tiny", Tier: "thorough"}, {Pkg: "ecs", Fn: "HC03_BatchQuery"}, {Pkg: "ecs", Fn: "HC10_BatchDup", W: 4}},
		Conform: stdConform,
		Bounds:  "6 prefixes x 1 failed call (thorough: followed by a second, fixed failed call) out of 10 illegal classes with all arguments symbolic and constrained only to be illegal per the documentation: Add/Remove/Exchange (dead or recycled entity, present/absent component, second relation), Assign (incl. no components), every accessor/mutator on a removed entity, Set / write through Get on a missing component, creation with two relations / target without relation / relation not among the components / non-relation named as relation (ids and values), duplicate ids (NewEntity, NewEntityWith, Add, Remove, Exchange), non-positive batch counts (fully symbolic count <= 0, NewBatch and NewBatchQ), Relations.Set and Relations.Exchange / Builder.Add with target (dead entity, wrong component, dead target, no effect); asserted: panic, then all observables = model, structural invariant, pool/index/row digest unchanged, world unlocked, and two further legal operations behave per the model; 2 configurations (thorough 4; C10 thorough 3). duplicate ids in batch calls (Batch.Add / Remove / Exchange and Q variants, HC10_BatchDup); filter misuse (registering a registered filter, unregistering twice, unregistering or querying through a stale handle after a later registration); out-of-range indices (fully symbolic, 64 bit) on batch-result queries by HC03_BatchQuery, run here too; out-of-range indices on plain queries and non-positive steps are decided in C03, further cache histories in C07, resources in C20, type limit in C16, LoadEntities in C17.",
		Outside: "empty graph nodes / tables left behind by a failed graph walk (visible only through Stats().Nodes, not an observable named by the property); sequences of more than two failed calls",
	},
	{
		ID: "C11",
		Harnesses: []H{{Pkg: "ecs", Fn: "HC11_Events"}, {Pkg: "ecs", Fn: "HC11_Events", Tags: "tiny", Tier: "thorough"}, {Pkg: "ecs", Fn: "HDeepEvents"}, {Pkg: "ecs", Fn: "HC11_Reentrant", W: 2}},
		Conform: stdConform,
		Bounds:  "HC11_Reentrant: a listener that itself creates / assigns / adds while the events of a batch (4 batch forms, 3 entities) are delivered - every event exact at delivery time; 8 prefixes x 1 operation with a recording listener subscribed to everything: the 11 single-entity operation kinds with every legal argument, the 5 batch families incl. Q variants (events only at close/exhaustion), removal / retarget / Reset family, and no-op calls (Exchange/Add/Remove without components, Relations.Set to the current target); per event: type bits, Added/Removed masks, AddedIDs/RemovedIDs as sets, Old/NewRelation nil-ness and value, OldTarget, and what the world shows at delivery (lock state, liveness, Mask, target: after-state, or before-state for removals); exactly one event per changed entity as a multiset; HDeepEvents: the same oracle after every step of every history of 3 (thorough 4) reduced-argument operations from an empty world; 2 configurations (thorough 4; C10 thorough 3)",
		Outside: "order of events inside one batch call; more than one operation after installing the listener",
	},
	{
		ID: "C17",
		Harnesses: []H{{Pkg: "ecs", Fn: "HC17_DumpLoad"}, {Pkg: "ecs", Fn: "HC17_Refuse", W: 2}, {Pkg: "ecs", Fn: "HC17_Large", W: 4}, {Pkg: "ecs", Fn: "HC17_JSON", W: 1}},
		Conform: stdConform,
		Bounds:  "source history: 2, 3 or 5 (thorough: 3 or 5) creations followed by up to 2 (thorough 3) removals of symbolically chosen alive entities, each optionally followed by a re-creation (free-list depth 0..3, mixed generations; with 2 creations the world can be empty at dump time); 6 triples of capacity increments (1..4) for source and the two receivers; receiver 1 = fresh world loaded at once (Alive of every issued handle, dump(loaded) == dump field by field incl. the Alive sequence); then the source is optionally mutated (removal / creation); receiver 2 = fresh or reset world loaded later from the same dump object (snapshot semantics); then a common suffix of 2 (thorough 3) creations/removals on all worlds with identical handles and Alive answers, final dumps equal (Alive as a set); refusal for worlds with entities, with recycled ids but no reset, locked; acceptance after Reset; HC17_Large: dumps of 64 / 65 / 130 entities (beyond one 64-bit word of the internal bit sets) loaded into fresh or reset worlds with capacity increments 1 / 7 / 128, followed by removals, creations and relation-target use of the highest ids in original and copy",
		Outside: "JSON syntax itself: encoding/json.Marshal / Unmarshal of [2]uint32 are replaced by an abstract lossless encoding in the engine (Entity.MarshalJSON / UnmarshalJSON around them are executed for every 32-bit id and generation; the native replay uses the real encoding/json); JSON of whole dumps; dumps not produced by DumpEntities; more than 8 handles",
	},
	{
		ID: "C15",
		Harnesses: []H{{Pkg: "ecs", Fn: "HC15_Reset"}, {Pkg: "ecs", Fn: "HC15_Reset", Tags: "tiny", Tier: "thorough"}},
		Conform: stdConform,
		Bounds:  "a filter out of 5 (mask, relation component, relation filter with zero target / with the first handle a world issues, relation filter over a non-relation component filter) registered before the history; 6 prefixes (populated tables, two parents, dead target, retired table, recycled ids, re-issued target id), resources added; right before the reset optionally: every entity removed one by one, or a query opened and closed; then Reset (thorough: two cycles): unlocked, no resources, no entities, registered filter = original filter, invariant; then 2 operations with a recording listener: behaviour must be that of a fresh world, i.e. handles {1,0},{2,0},.. with last-removed-first re-use (handle-sequence model), events per the C11 oracle, observables and queries (plain and registered) per the model, resource ids still valid; 2 configurations (thorough 4; C10 thorough 3)",
		Outside: "more than 2 operations after the reset; more than two reset cycles",
	},
	{
		ID: "C20",
		Harnesses: []H{{Pkg: "generic", Fn: "HC20_Resources"}, {Pkg: "generic", Fn: "HC20_Resources", Tags: "tiny", Tier: "thorough"}},
		Conform: stdConform,
		Bounds:  "4 resource types placed at IDs 0, 1 or 16 or 17, 63 or 64 (31/32 in tiny), and the last ID (255 / 63) by filler registrations that cross every 16-ID chunk and 64-bit word; symbolic sequences of 2 (thorough 3) operations out of: Add (World.Resources, generic.Resource, ecs.AddResource), Remove (World.Resources, generic.Resource), registration of a further type, entity creation + component registration, entity removal, lock/unlock by a query, Reset; after every step Has/Get of every registered type through all three APIs against the model (exact pointer identity, nil when absent), panics exactly for duplicate Add / missing Remove, no component ids consumed",
		Outside: "more than 4 distinct resource types holding values at once (all 256 ids are registered by the fillers); sequences longer than 4 operations",
	},
	{
		ID: "C16",
		Harnesses: []H{{Pkg: "ecs", Fn: "HC16_Layouts"}, {Pkg: "ecs", Fn: "HC16_Layouts", Tags: "tiny"}, {Pkg: "ecs", Fn: "HC16_Shapes", W: 2}, {Pkg: "ecs", Fn: "HC16_Shapes", W: 2, Tags: "tiny"}},
		Conform: stdConform,
		Bounds:  "m types registered before the first tables exist and n in total, (m, n) over all pairs from the boundary set {0,1,15,16,17,63,64,65,128,192,239,240,241,255,256} (tiny: {0,1,15,16,17,31,32,33,47,48,49,62,63,64}) with m <= n; a component id j from the same set (j < n) is used on a table created before its registration and on tables created after it: Has/Get on old tables (out-of-block unsafe reads are violations), NewEntity, write/read through Get, Add to / Remove from entities of old tables, query; registry: dense ids in order, ComponentIDs/ComponentInfo consistent, same type same id, unregistered id reported false; at the limit one more registration panics and changes nothing; shapes: Relation embedded first / later / as named field / by pointer / alone / non-struct, resource registry independent, registration refused under lock is rolled back completely; capacity increments 1..2",
		Outside: "values of m, n, j between the boundary values (the chunk arithmetic is piecewise uniform between multiples of 16 and 64)",
	},
	{
		ID: "C18",
		Harnesses: append(hs("generic", false, 2, "HC18_Arity1", "HC18_Arity2", "HC18_Arity3", "HC18_Arity4", "HC18_Arity5", "HC18_Arity6", "HC18_Arity7", "HC18_Arity8", "HC18_Arity9", "HC18_Arity10", "HC18_Arity11", "HC18_Arity12", "HC18_MapExchange", "HC18_RelArity1", "HC18_RelArity2", "HC18_RelArity3", "HC18_RelArity4", "HC18_RelArity5", "HC18_RelArity6", "HC18_RelArity7", "HC18_RelArity8", "HC18_RelArity9", "HC18_RelArity10", "HC18_RelArity11", "HC18_RelArity12", "HC18_Exchange"), H{Pkg: "generic", Fn: "HC18_TwoQueries", W: 2, NoSample: true}, H{Pkg: "generic", Fn: "HC18_Builders"}, H{Pkg: "generic", Fn: "HC18_Builders", Tags: "tiny", Tier: "thorough"}, H{Pkg: "generic", Fn: "HC18_Arity12", Tags: "tiny", W: 2}),
		Conform: stdConform,
		Bounds:  "every arity 1..12 (harnesses generated from one template like the library): MapN.New / NewWith (symbolic values) / Assign / Add / Remove / NewBatch / NewBatchQ / AddBatchQ / RemoveBatch and FilterN.Query (unregistered and registered) - every Get position is compared by pointer identity with World.Get of the declared component, selections with the equivalent core filter; Optional at a symbolically chosen position (nil for the absent component); component ids offset by 0 / 14 / 60 fillers (chunk and word boundaries); builder sequences: 3 (thorough 4) symbolic steps out of With / Without / Optional / Exclusive / WithRelation (open or fixed target) / use (with or without runtime target) / register-unregister on Filter0, Filter1, Filter2 followed by a final use, against a set-theoretic model of the configuration at query time on a 9-entity world; Map[T], relation-aware Map2 and Exchange against the core calls; every arity 1..12 again with a relation component as first type parameter: New / NewBatch / NewBatchQ / Add / AddBatch / AddBatchQ with target (Query.Relation and Relations.Get agree), Remove, RemoveEntities(exclusive or not) counts, FilterN with Without / Exclusive and a runtime or fixed target; every method of generic.Exchange with and without target; two simultaneously open queries with different runtime targets (known finding)",
		Outside: "arity 0 beyond Filter0/Query0 in the builder harness; builder sequences longer than 4 steps; generic.Resource is decided in C20",
	},
	{
		ID: "C19",
		Harnesses: []H{{Pkg: "ecs", Fn: "HC19_Isolation"}, {Pkg: "ecs", Fn: "HC19_Isolation", Tags: "tiny", Tier: "thorough"}, {Pkg: "ecs", Fn: "HC19_SharedDump", W: 2}},
		Conform: stdConform,
		Bounds:  "two worlds in one heap (same types registered in opposite order, different capacity increments), 2 (thorough 5) prefixes on world 1, one operation on world 1 out of the single-entity (11 kinds), batch (5), removal/retarget (6) families and a query/cache/registration/resource/Stats bundle, with every legal argument; then a fixed sequence on world 2; decided per path: creating and populating the first world writes no package-level variable and nothing reachable from one; the set of blocks written by the operations on one world is disjoint from everything reachable from the other world (pointers, slices, interfaces, maps, closures, reflect values) and contains no package-level variable; both worlds' observables stay equal to their models; HC19_SharedDump: two worlds loaded from one dump object (capacity increments 1 / 4 / 5) - operations on one write nothing reachable from the other or from the dump. A violation is replayed natively with two goroutines driving their own worlds under the race detector.",
		Outside: "goroutine schedules are not enumerated: footprint disjointness implies race freedom and independence for one-goroutine-per-world programs under every schedule; shared state inside the Go runtime (allocator, reflect type cache) is trusted",
	},
	{
		ID: "C13",
		Harnesses: []H{{Pkg: "ecs", Fn: "HC13_Determinism", MapOrder: true}, {Pkg: "ecs", Fn: "HC13_Determinism", MapOrder: true, Tags: "tiny", Tier: "thorough"}},
		Conform: stdConform,
		Census:  true,
		Bounds:  "self-composition: two freshly created worlds (recording listeners and a registered filter installed) receive the same prefix (3, thorough 6) and the same 1 (thorough 2) operation(s) out of 9 kinds (creation, creation with target, removal, exchange, retarget, batch removal by filter, batch creation, Reset, batch exchange) with arguments picked once, plus four scripted scenarios (Reset of a relation node with more retired than live tables; a target with empty tables in three nodes dies while a registered filter lists them; several targets die in one batch call and their table slots are re-used; Reset over a registered filter whose list interleaves relation tables with surviving tables - there world 1 ranges over maps in insertion order and world 2 in every order, which is as complete and keeps the path count linear); handles, event sequences, query iteration order for 6 filters (plain and registered) and entity dumps must be equal in both worlds; in the engine every range over a map picks its next entry by a solver-chosen index (entries deleted during the range are skipped as the language specifies), independently in the two worlds, so a dependence on map order yields a concrete witness order (replayed natively 50 times, Go randomises map iteration); the SSA census of map-range sites, pointer-to-integer conversions, go/select statements and time/rand callees in the four library packages is reported in the evidence",
		Outside: "garbage-collection timing and cross-process effects other than map iteration order (the engine has no collector and one process); ordering by address is covered only by the census (no pointer-to-integer conversion exists in the library)",
	},
	{
		ID: "C14",
		Harnesses: []H{{Pkg: "ecs", Fn: "HC14_Pointers"}, {Pkg: "ecs", Fn: "HC14_Pointers", Tags: "tiny", Tier: "thorough"}},
		Conform: stdConform,
		Bounds:  "REDUCED SCOPE: necessary storage-discipline conditions, not GC schedules. A world with pointer-carrying components in tables [P], [A,P] and a relation table, then 2 symbolic operations out of 13: creation (growth), write through Get, Set, Assign, move by add/remove of other components, removal of the component, removal of entities (swap-remove), batch move, relation move (single and batch, the relation component carries data), Reset, batch removal, children with pointer components; decided in the engine for every path: (N1/N2) every pointer-carrying value written by the library - by typed stores, raw byte copies, reflect.Copy - lands in memory whose allocation type has a pointer word at that offset (what the collector scans), no raw copy cuts a pointer, (N3) storage beyond a table's length and all storage of retired / reset tables is zero, components keep the exact pointer last written and the referent's value; 2 configurations (thorough 4; C10 thorough 3). Native replay of a counterexample additionally sets finalizers and forces collections: referents of live components must survive, all others must be collected.",
		Outside: "write barriers, concurrent marking, escape analysis and GC timing (properties of the Go runtime and compiler, not present at go/ssa level); transient states inside one operation (N4 of the design: ordering of zeroing and copying between safepoints) are not checked",
	},
}
