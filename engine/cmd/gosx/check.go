package main

import (
	"crypto/sha1"
	"encoding/json"
	"fmt"
	"os"
	"path/filepath"
	"regexp"
	"sort"
	"strconv"
	"strings"
	"sync"
	"time"

	"gosx/sx"
)

// H describes one harness entry of a property check.
type H struct {
	Pkg   string
	Fn    string
	Tags  string // "" or "tiny"
	Tier  string // "" = both, "thorough" = thorough only, "quick" = quick only
	W     int    // workers (0 = default 16)
	Reach []string
	MaxSteps int64
	MapOrder bool
	Cross    bool // thorough tier: every assertion is re-decided by cvc5
	NoSample bool // skip the native random-input self-check (harnesses that exhibit a known finding)
	Minutes  int
}

// Prop is the per-property check definition.
type Prop struct {
	ID        string
	Level     string
	Harnesses []H
	Extra     []H
	Conform   []H // concrete scenarios compared engine vs native
	Census    bool // report the SSA census of nondeterminism sources (C13)
	Assume    []string
	Bounds    string
	Outside   string
}

type knownFinding struct {
	Property string `json:"property"`
	Status   string `json:"status"` // known | fixed
	Harness  string `json:"harness"` // regexp
	Label    string `json:"label"`   // regexp on label/msg
	Witness  string `json:"witness"` // regexp on choices string (optional)
	Model    string `json:"witness_model"` // regexp on "sym=value sym=value ..." (sorted), optional
	Commit   string `json:"commit,omitempty"`
	What     string `json:"what"`
}

var verifDir = func() string {
	if d := os.Getenv("VERIF_DIR"); d != "" {
		return d
	}
	return "/verif"
}()

func loadKnown() []knownFinding {
	var out []knownFinding
	if os.Getenv("VERIF_IGNORE_KNOWN") == "1" {
		return nil
	}
	data, err := os.ReadFile(filepath.Join(verifDir, "known_findings.json"))
	if err != nil {
		return nil
	}
	var doc struct {
		Findings []knownFinding `json:"findings"`
	}
	if json.Unmarshal(data, &doc) == nil {
		out = doc.Findings
	}
	return out
}

func matchKnown(kf []knownFinding, prop string, v sx.Violation) *knownFinding {
	for i := range kf {
		k := &kf[i]
		if k.Property != prop || k.Status != "known" {
			continue
		}
		if ok, _ := regexp.MatchString(k.Harness, v.Harness); !ok {
			continue
		}
		if ok, _ := regexp.MatchString(k.Label, v.Label+" "+v.Msg); !ok {
			continue
		}
		if k.Witness != "" {
			if ok, _ := regexp.MatchString(k.Witness, strings.Join(v.Choices, " ")); !ok {
				continue
			}
		}
		if k.Model != "" {
			var kv []string
			for n, val := range v.Model {
				kv = append(kv, fmt.Sprintf("%s=%d", n, val))
			}
			sort.Strings(kv)
			if ok, _ := regexp.MatchString(k.Model, strings.Join(kv, " ")); !ok {
				continue
			}
		}
		return k
	}
	return nil
}

type progKey struct{ tags string }

var censusInfo map[string]any
var nativeSamples [2]int

func cmdCheck(args []string) int {
	if len(args) < 2 {
		fmt.Println("usage: gosx check <ID> quick|thorough")
		return 2
	}
	id, tier := args[0], args[1]
	if t := os.Getenv("VERIF_TIER"); t == "quick" || t == "thorough" {
		tier = t
	}
	seed, _ := strconv.Atoi(os.Getenv("VERIF_SEED"))
	repo := "/repo"
	if r := os.Getenv("VERIF_REPO"); r != "" {
		repo = r
	}
	hdir := filepath.Join(verifDir, "harness")
	var prop *Prop
	for i := range props {
		if props[i].ID == id {
			prop = &props[i]
		}
	}
	if prop == nil {
		fmt.Println("unknown property", id)
		return 2
	}
	t0 := time.Now()
	tierN := 0
	if tier == "thorough" {
		tierN = 1
	}
	sx.TierN = tierN
	progs := map[string]*sx.Program{}
	getProg := func(tags string) (*sx.Program, error) {
		if p, ok := progs[tags]; ok {
			return p, nil
		}
		p, err := sx.Load(repo, hdir, tags, "engine")
		if err != nil {
			return nil, err
		}
		if err := p.InitProgram(sx.DefaultOptions()); err != nil {
			return nil, err
		}
		progs[tags] = p
		return p, nil
	}
	workDir := filepath.Join(verifDir, ".work", fmt.Sprintf("p%d", os.Getpid()))
	defer os.RemoveAll(workDir)
	nat := sx.NewNative(repo, hdir, workDir)
	known := loadKnown()

	inconclusive := []string{}
	var results []*sx.RunResult
	type vrec struct {
		v   sx.Violation
		h   H
	}
	var viols []vrec
	conformTraces := 0

	// 1. translator validation: concrete scenarios, engine log == native log
	for _, c := range prop.Conform {
		p, err := getProg(c.Tags)
		if err != nil {
			fmt.Println("LOAD ERROR:", err)
			return 2
		}
		msg := conformOne(p, nat, c)
		if msg != "" {
			inconclusive = append(inconclusive, "conformance: "+msg)
		} else {
			conformTraces++
		}
	}

	// 2. harnesses
	var hs []H
	for _, h := range append(append([]H{}, prop.Harnesses...), prop.Extra...) {
		if h.Tier != "" && h.Tier != tier {
			continue
		}
		hs = append(hs, h)
	}
	// group small (W==1) harnesses to run concurrently
	var mu sync.Mutex
	sem := make(chan struct{}, 16)
	var wg sync.WaitGroup
	// VERIF_FAILFAST=1 (seed matrix only): stop launching harnesses once one has reported a violation
	failfast := os.Getenv("VERIF_FAILFAST") == "1"
	for _, h := range hs {
		if failfast {
			mu.Lock()
			nv := 0
			for _, vr := range viols {
				if matchKnown(known, id, vr.v) == nil { // listed known findings do not end the run
					nv++
				}
			}
			mu.Unlock()
			if nv > 0 {
				fmt.Println("  (fail-fast: remaining harnesses skipped)")
				break
			}
		}
		p, err := getProg(h.Tags)
		if err != nil {
			fmt.Println("LOAD ERROR:", err)
			return 2
		}
		f := p.Func(h.Pkg, h.Fn)
		if f == nil {
			inconclusive = append(inconclusive, "harness not found: "+h.Fn)
			continue
		}
		w := h.W
		if w == 0 {
			w = 16
		}
		opts := sx.DefaultOptions()
		opts.Workers = w
		opts.MapOrderChoice = h.MapOrder
		if h.Cross && (tier == "thorough" || os.Getenv("VERIF_CROSS") == "1") {
			opts.CrossSolver = "cvc5"
		}
		if h.MaxSteps > 0 {
			opts.MaxSteps = h.MaxSteps
		}
		if h.Minutes > 0 {
			opts.Timeout = time.Duration(h.Minutes) * time.Minute
		}
		for i := 0; i < w; i++ {
			sem <- struct{}{}
		}
		wg.Add(1)
		go func(h H, p *sx.Program) {
			defer wg.Done()
			name := h.Fn
			if h.Tags != "" {
				name += "@" + h.Tags
			}
			res := p.Explore(name, f, nil, opts)
			for i := 0; i < w; i++ {
				<-sem
			}
			mu.Lock()
			defer mu.Unlock()
			results = append(results, res)
			for _, v := range res.Violations {
				viols = append(viols, vrec{v, h})
			}
			for _, s := range res.Inconclusive {
				inconclusive = append(inconclusive, name+": "+s)
			}
			reach := h.Reach
			if reach == nil {
				reach = []string{"end"}
			}
			for _, r := range reach {
				if res.Reached[r] == 0 {
					inconclusive = append(inconclusive, fmt.Sprintf("%s: witness %q not reached (vacuous harness)", name, r))
				}
			}
			fmt.Printf("  %-44s paths=%-6d done=%-6d obl=%-7d viol=%-3d queries=%-6d solver=%.1fs wall=%.1fs\n", name, res.Paths, res.Done, res.Obligations, len(res.Violations), res.Solver.Queries, res.Solver.Time.Seconds(), res.Wall.Seconds())
			for l, n := range res.BoundPrunes {
				fmt.Printf("    note: model capacity %q cut %d path(s) (outside the stated bound)\n", l, n)
			}
		}(h, p)
	}
	wg.Wait()
	sort.Slice(results, func(i, j int) bool { return results[i].Harness < results[j].Harness })

	// 2b. engine self-check in symbolic mode: harnesses the engine found free of
	// violations are run natively with pseudo-random inputs; a native failure
	// means the engine (or a harness bound) hides something.
	nSample := 8
	if tier == "thorough" {
		nSample = 40
	}
	sampleOK, sampleAssume := 0, 0
	if os.Getenv("VERIF_NO_SAMPLE") == "" {
		var smu sync.Mutex
		var swg sync.WaitGroup
		ssem := make(chan struct{}, 16)
		for _, h := range hs {
			if h.NoSample {
				continue
			}
			clean := true
			for _, vr := range viols {
				if vr.h.Fn == h.Fn && vr.h.Tags == h.Tags {
					clean = false
				}
			}
			if !clean {
				continue
			}
			bin, err := nat.Build(h.Pkg, h.Tags, false)
			if err != nil {
				inconclusive = append(inconclusive, "native build for sampling: "+err.Error())
				continue
			}
			swg.Add(1)
			go func(h H, bin string) {
				defer swg.Done()
				ssem <- struct{}{}
				defer func() { <-ssem }()
				ok, af, fails := nat.RunRandom(bin, h.Fn, nSample, seed*1000)
				smu.Lock()
				sampleOK += ok
				sampleAssume += af
				for _, f := range fails {
					inconclusive = append(inconclusive, fmt.Sprintf("ENGINE-SELF-CHECK: %s%s decided free of violations, but a native run with random inputs fails (%s)", h.Fn, map[bool]string{true: "@" + h.Tags, false: ""}[h.Tags != ""], f))
				}
				smu.Unlock()
			}(h, bin)
		}
		swg.Wait()
	}
	nativeSamples = [2]int{sampleOK, sampleAssume}

	// 3. replay violations natively; classify
	exit := 0
	type group struct {
		key   string
		items []vrec
	}
	groups := map[string]*group{}
	var gorder []string
	for _, vr := range viols {
		k := vr.v.Harness + "|" + vr.v.Kind + "|" + vr.v.Label
		if vr.v.Kind == "panic" {
			k = vr.v.Harness + "|panic|" + firstLine(vr.v.Msg)
		}
		g := groups[k]
		if g == nil {
			g = &group{key: k}
			groups[k] = g
			gorder = append(gorder, k)
		}
		g.items = append(g.items, vr)
	}
	sort.Strings(gorder)
	nViol, nKnown, nReplayed := 0, 0, 0
	var knownLines, violLines []string
	for _, k := range gorder {
		g := groups[k]
		// known finding? (all witnesses of the group must match to suppress)
		allKnown := true
		var kf *knownFinding
		var unknown []vrec
		for _, it := range g.items {
			if m := matchKnown(known, id, it.v); m != nil {
				kf = m
			} else {
				allKnown = false
				unknown = append(unknown, it)
			}
		}
		if kf != nil {
			line := fmt.Sprintf("KNOWN-FINDING: property=%s %s", id, kf.What)
			dup := false
			for _, l := range knownLines {
				if l == line {
					dup = true
				}
			}
			if !dup {
				knownLines = append(knownLines, line)
			}
			nKnown++
		}
		if allKnown {
			continue
		}
		confirmed := false
		var lastPath, lastMsg string
		for i, it := range unknown {
			if i >= 4 {
				break
			}
			path, ok, msg := replayNative(nat, id, it.h, it.v)
			nReplayed++
			lastPath, lastMsg = path, msg
			if ok {
				confirmed = true
				violLines = append(violLines, fmt.Sprintf("VIOLATION property=%s replay=%s", id, path))
				fmt.Printf("  violation: harness=%s kind=%s label=%q msg=%q choices=%v\n", it.v.Harness, it.v.Kind, it.v.Label, firstLine(it.v.Msg), it.v.Choices)
				nViol++
				break
			}
		}
		if !confirmed {
			inconclusive = append(inconclusive, fmt.Sprintf("ENGINE-MISMATCH: counterexample for %s did not reproduce natively (%s; replay=%s)", k, lastMsg, lastPath))
		}
	}
	for _, l := range knownLines {
		fmt.Println(l)
	}
	for _, l := range violLines {
		fmt.Println(l)
	}
	if nViol > 0 {
		exit = 1
	} else if len(inconclusive) > 0 {
		exit = 2
	}
	for _, s := range inconclusive {
		fmt.Println("INCONCLUSIVE:", s)
	}

	if prop.Census {
		for _, p := range progs {
			censusInfo = sx.Census(p)
			break
		}
	}
	writeEvidence(prop, tier, seed, results, progs, conformTraces+nReplayed, nViol, nKnown, inconclusive, time.Since(t0), nat)
	fmt.Printf("%s %s: exit=%d harnesses=%d violations=%d known=%d inconclusive=%d wall=%.1fs\n", id, tier, exit, len(results), nViol, nKnown, len(inconclusive), time.Since(t0).Seconds())
	return exit
}

func firstLine(s string) string {
	if i := strings.IndexByte(s, '\n'); i >= 0 {
		return s[:i]
	}
	return s
}

func conformOne(p *sx.Program, nat *sx.Native, c H) string {
	f := p.Func(c.Pkg, c.Fn)
	if f == nil {
		return "no such conformance harness " + c.Fn
	}
	opts := sx.DefaultOptions()
	opts.Workers = 1
	opts.KeepLogs = true
	res := p.Explore(c.Fn, f, nil, opts)
	if len(res.Logs) != 1 || res.Logs[0].Status != sx.Done {
		return fmt.Sprintf("%s: engine did not finish on one path (%v)", c.Fn, res.Inconclusive)
	}
	bin, err := nat.Build(c.Pkg, c.Tags, false)
	if err != nil {
		return err.Error()
	}
	no, err := nat.Run(bin, c.Fn, "", 1)
	if err != nil {
		return err.Error()
	}
	el := res.Logs[0].Lines
	if no.Outcome != "VERIF-OK" {
		return fmt.Sprintf("%s: native outcome %s", c.Fn, no.Outcome)
	}
	if len(el) != len(no.Logs) {
		return fmt.Sprintf("%s: log length differs engine=%d native=%d", c.Fn, len(el), len(no.Logs))
	}
	for i := range el {
		if el[i] != no.Logs[i] {
			return fmt.Sprintf("%s: log line %d differs: engine %q native %q", c.Fn, i, el[i], no.Logs[i])
		}
	}
	return ""
}

type replayDoc struct {
	Property string            `json:"property"`
	Harness  string            `json:"harness"`
	Pkg      string            `json:"pkg"`
	Tags     string            `json:"tags"`
	Kind     string            `json:"kind"`
	Label    string            `json:"label"`
	Msg      string            `json:"msg"`
	Choices  []string          `json:"choices"`
	Model    map[string]uint64 `json:"model"`
	Tier     int               `json:"tier"`
	HowTo    string            `json:"how_to_replay"`
}

// replayNative writes the assignment and runs the same harness natively.
func replayNative(nat *sx.Native, id string, h H, v sx.Violation) (string, bool, string) {
	dir := filepath.Join(verifDir, "replays", id)
	os.MkdirAll(dir, 0o755)
	doc := replayDoc{Property: id, Harness: h.Fn, Pkg: h.Pkg, Tags: h.Tags, Kind: v.Kind, Label: v.Label, Msg: v.Msg, Choices: v.Choices, Model: v.Model, Tier: sx.TierN,
		HowTo: "/verif/check --replay <this file>"}
	data, _ := json.MarshalIndent(doc, "", " ")
	sum := sha1.Sum(data)
	path := filepath.Join(dir, fmt.Sprintf("%s-%x.json", h.Fn, sum[:5]))
	os.WriteFile(path, data, 0o644)
	ok, msg := runReplay(nat, doc, path)
	return path, ok, msg
}

func runReplay(nat *sx.Native, doc replayDoc, path string) (bool, string) {
	parallel := doc.Property == "C19"
	bin, err := nat.BuildMode(doc.Pkg, doc.Tags, parallel, doc.Kind == "memory-safety")
	if err != nil {
		return false, err.Error()
	}
	if parallel {
		os.Setenv("VERIF_PARALLEL", "1")
		defer os.Unsetenv("VERIF_PARALLEL")
	}
	os.Setenv("VERIF_TIER_N", fmt.Sprint(doc.Tier))
	rep := 1
	if strings.Contains(doc.Label, "nondeterminism") {
		rep = 50
	}
	no, err := nat.Run(bin, doc.Harness, path, rep)
	if err != nil {
		return false, err.Error()
	}
	switch doc.Kind {
	case "assert":
		if strings.HasPrefix(no.Outcome, "VERIF-RACE") {
			return true, no.Outcome
		}
		if no.Outcome == "VERIF-ASSERT-FAILED: "+doc.Label {
			return true, no.Outcome
		}
		// another assertion failing first or a panic is still a native failure of the same harness
		if strings.HasPrefix(no.Outcome, "VERIF-ASSERT-FAILED") || strings.HasPrefix(no.Outcome, "VERIF-PANIC") {
			return true, no.Outcome
		}
	case "panic":
		if strings.HasPrefix(no.Outcome, "VERIF-PANIC") || strings.HasPrefix(no.Outcome, "VERIF-ASSERT-FAILED") {
			return true, no.Outcome
		}
	case "memory-safety":
		if strings.HasPrefix(no.Outcome, "VERIF-PANIC") || strings.HasPrefix(no.Outcome, "VERIF-ASSERT-FAILED") || strings.HasPrefix(no.Outcome, "VERIF-CHECKPTR") {
			return true, no.Outcome
		}
	}
	return false, "native outcome: " + no.Outcome
}

func cmdReplay(path string) int {
	if abs, err := filepath.Abs(path); err == nil {
		path = abs // the native test binary runs in its own directory
	}
	data, err := os.ReadFile(path)
	if err != nil {
		fmt.Println(err)
		return 2
	}
	var doc replayDoc
	if err := json.Unmarshal(data, &doc); err != nil {
		fmt.Println(err)
		return 2
	}
	repo := "/repo"
	if r := os.Getenv("VERIF_REPO"); r != "" {
		repo = r
	}
	workDir := filepath.Join(verifDir, ".work", fmt.Sprintf("p%d", os.Getpid()))
	defer os.RemoveAll(workDir)
	nat := sx.NewNative(repo, filepath.Join(verifDir, "harness"), workDir)
	ok, msg := runReplay(nat, doc, path)
	fmt.Printf("replay %s harness=%s label=%q: reproduced=%v (%s)\n", path, doc.Harness, doc.Label, ok, msg)
	if ok {
		fmt.Printf("VIOLATION property=%s replay=%s\n", doc.Property, path)
		return 1
	}
	return 0
}

func writeEvidence(prop *Prop, tier string, seed int, results []*sx.RunResult, progs map[string]*sx.Program, traces, nViol, nKnown int, inconclusive []string, wall time.Duration, nat *sx.Native) {
	var paths, steps, obl, dis, done, queries, sat, unsat, unknown int64
	var solverSecs float64
	var samples []any
	perH := []map[string]any{}
	for _, r := range results {
		paths += r.Paths
		steps += r.Steps
		obl += r.Obligations
		dis += r.Discharged
		done += r.Done
		queries += int64(r.Solver.Queries)
		sat += int64(r.Solver.Sat)
		unsat += int64(r.Solver.Unsat)
		unknown += int64(r.Solver.Unknown)
		solverSecs += r.Solver.Time.Seconds()
		for i, s := range r.Samples {
			if i < 2 && len(samples) < 12 {
				samples = append(samples, map[string]any{"harness": r.Harness, "path_choices": s})
			}
		}
		perH = append(perH, map[string]any{"harness": r.Harness, "paths": r.Paths, "paths_completed": r.Done, "paths_pruned_by_assumption": r.Killed,
			"instructions": r.Steps, "forks": r.Forks, "assertions_checked": r.Obligations, "assertions_discharged": r.Discharged, "assertions_decided_by_solver_query": r.SolverDecided,
			"assertions_constant_after_symbolic_simplification": r.Obligations - r.SolverDecided, "path_feasibility_and_choice_queries": int64(r.Solver.Queries) - r.SolverDecided,
			"solver_queries": r.Solver.Queries, "solver_s": round2(r.Solver.Time.Seconds()), "max_query_s": round2(r.Solver.MaxQuery.Seconds()),
			"witnesses": r.Reached, "wall_s": round2(r.Wall.Seconds()), "map_range_sites": r.MapRangeSites, "paths_cut_by_model_capacity": r.BoundPrunes,
			"assertions_cross_checked_by_cvc5": r.CrossChecked, "cvc5_unknown": r.CrossUnknown})
	}
	if len(samples) == 0 {
		samples = append(samples, "no completed path")
	}
	funcs := map[string]int{}
	srcHash := ""
	for _, p := range progs {
		srcHash = p.SrcHash
		p.FuncsEncoded.Range(func(k, v any) bool {
			n := k.(string)
			if strings.Contains(n, ".H") || strings.Contains(n, ".v") || strings.Contains(n, "zz_verif") {
				// harness functions are listed too, marked
			}
			funcs[n] = v.(int)
			return true
		})
	}
	var fnames []string
	for n := range funcs {
		fnames = append(fnames, fmt.Sprintf("%s (%d instrs)", strings.TrimPrefix(n, sx.ModPath+"/"), funcs[n]))
	}
	sort.Strings(fnames)
	level := prop.Level
	if level == "" {
		level = "model_checking"
	}
	cov := map[string]any{
		"states":                        max64(paths, 1),
		"transitions":                   max64(steps, 1),
		"traces_validated_against_impl": traces,
		"samples":                       samples,
		"evaluations":                   max64(paths, 1),
		"distinct_nontrivial":           done,
		"rule":                          "one evaluation = one feasible symbolic path of a harness through the real code (distinct by its branch/choice decisions, each checked feasible by the solver); non-trivial = the path ran to the harness end witness with all its assertions decided for every value of its symbolic inputs",
		"obligations":                   max64(obl, 1),
		"discharged":                    dis,
		"checker_cmd":                   fmt.Sprintf("/verif/check %s %s", prop.ID, tier),
		"trusted_base":                  []string{"go/ssa (x/tools v0.29.0) lowering of /repo", "gosx interpreter and memory model (validated against native execution by conformance traces)", "z3 4.8.12", "stubs listed under assumptions"},
		"exhaustive":                    len(inconclusive) == 0,
		"functions_encoded":             fnames,
		"functions_encoded_count":       len(fnames),
		"repo_source_hash":              srcHash,
		"bounds":                        prop.Bounds,
		"outside_claim":                 prop.Outside,
		"solver":                        map[string]any{"queries": queries, "sat": sat, "unsat": unsat, "unknown": unknown, "time_s": round2(solverSecs), "backend": "z3 -in (incremental, push/pop)"},
		"per_harness":                   perH,
		"known_findings_seen":           nKnown,
		"inconclusive":                  inconclusive,
		"native_build_s":                round2(nat.BuildSecs),
	}
	if censusInfo != nil {
		cov["nondeterminism_census"] = censusInfo
	}
	cov["native_random_input_runs"] = map[string]any{"passed": nativeSamples[0], "outside_assumptions": nativeSamples[1],
		"purpose": "self-check of the engine in symbolic mode: every harness decided free of violations is also run natively with pseudo-random inputs; a failing native run makes the check inconclusive"}
	ev := map[string]any{
		"property_id": prop.ID,
		"tier":        tier,
		"seed":        seed,
		"level":       level,
		"coverage":    cov,
		"assumptions": append([]string{
			"reflect.* / unsafe.Add / fmt.Sprintf / math/bits are engine intrinsics (reflect over go/types with gc amd64 layout; fmt returns an opaque string)",
			"encoding/json.Marshal / Unmarshal of integer arrays are an abstract lossless encoding (only Entity.MarshalJSON / UnmarshalJSON use them)",
			"memory: byte-addressed typed blocks; slice growth follows runtime.growslice with the gc size classes",
			"garbage collector, goroutines and floating point are not modelled",
		}, prop.Assume...),
		"wall_s":     round2(wall.Seconds()),
		"violations": nViol,
	}
	evDir := filepath.Join(verifDir, "evidence")
	if r := os.Getenv("VERIF_REPO"); r != "" && r != "/repo" {
		// runs against a scratch tree (seeded changes) must not overwrite the evidence of /repo
		evDir = filepath.Join(verifDir, ".work", "evidence-scratch")
	}
	os.MkdirAll(evDir, 0o755)
	data, _ := json.MarshalIndent(ev, "", " ")
	os.WriteFile(filepath.Join(evDir, prop.ID+".json"), data, 0o644)
}

func round2(f float64) float64 { return float64(int64(f*100)) / 100 }
func max64(a, b int64) int64 {
	if a > b {
		return a
	}
	return b
}
