package main

import (
	"fmt"
	"golang.org/x/tools/go/packages"
	"golang.org/x/tools/go/ssa"
	"golang.org/x/tools/go/ssa/ssautil"
)

var _ = packages.Load
var _ ssa.BuilderMode
var _ = ssautil.AllPackages

func main() { fmt.Println("ok") }
