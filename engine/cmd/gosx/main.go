package main

import (
	"flag"
	"fmt"
	"os"
	"runtime/pprof"
	"strings"
	"time"

	"gosx/sx"
)

func main() {
	os.Exit(realMain())
}

func realMain() int {
	if len(os.Args) < 2 {
		fmt.Println("usage: gosx run|check ...")
		os.Exit(2)
	}
	switch os.Args[1] {
	case "run":
		cmdRun(os.Args[2:])
	case "check":
		if len(os.Args) >= 4 && os.Args[2] == "--replay" {
			return cmdReplay(os.Args[3])
		}
		return cmdCheck(os.Args[2:])
	case "native":
		// gosx native <pkg> <harness> [replay.json] [tags]
		nat := sx.NewNative("/repo", verifDir+"/harness", fmt.Sprintf("%s/.work/n%d", verifDir, os.Getpid()))
		tags := ""
		replay := ""
		if len(os.Args) > 4 {
			replay = os.Args[4]
		}
		if len(os.Args) > 5 {
			tags = os.Args[5]
		}
		bin, err := nat.Build(os.Args[2], tags, false)
		if err != nil {
			fmt.Println(err)
			os.Exit(2)
		}
		no, err := nat.Run(bin, os.Args[3], replay, 1)
		fmt.Println(no.Outcome, err)
	case "selftest":
		n, k, err := sx.SelfTest(1, 20000, 400)
		if err != nil {
			fmt.Println("SELFTEST FAILED:", err)
			return 2
		}
		fmt.Printf("selftest ok: %d random term pairs evaluated (simplified vs raw, 8 models each), %d proved equivalent by z3\n", n, k)
	case "conform":
		cmdConform(os.Args[2:])
	case "funcs":
		// gosx funcs: every function of the library packages (harness overlay excluded)
		p, err := sx.Load("/repo", verifDir+"/harness", "", "engine")
		if err != nil {
			fmt.Println(err)
			return 2
		}
		for _, n := range p.LibraryFuncs() {
			fmt.Println(n)
		}
	default:
		fmt.Println("unknown command")
		return 2
	}
	return 0
}

func cmdRun(args []string) {
	fs := flag.NewFlagSet("run", flag.ExitOnError)
	repo := fs.String("repo", "/repo", "")
	hdir := fs.String("harness", verifDir+"/harness", "")
	tags := fs.String("tags", "", "")
	pkg := fs.String("pkg", "ecs", "")
	fn := fs.String("fn", "", "")
	workers := fs.Int("workers", 16, "")
	verbose := fs.Bool("v", false, "")
	logs := fs.Bool("logs", false, "")
	dbgPure := fs.Bool("dbgpure", false, "")
	mapOrder := fs.Bool("maporder", false, "")
	prof := fs.String("cpuprofile", "", "")
	fs.Parse(args)
	sx.DebugPure = *dbgPure
	if *prof != "" {
		pf, _ := os.Create(*prof)
		pprof.StartCPUProfile(pf)
		defer pprof.StopCPUProfile()
	}
	t0 := time.Now()
	p, err := sx.Load(*repo, *hdir, *tags, "engine")
	if err != nil {
		fmt.Println("load error:", err)
		os.Exit(2)
	}
	fmt.Printf("loaded in %.1fs src=%s\n", time.Since(t0).Seconds(), p.SrcHash)
	opts := sx.DefaultOptions()
	opts.Workers = *workers
	opts.Verbose = *verbose
	opts.KeepLogs = *logs
	opts.MapOrderChoice = *mapOrder
	if err := p.InitProgram(opts); err != nil {
		fmt.Println("init error:", err)
		os.Exit(2)
	}
	f := p.Func(*pkg, *fn)
	if f == nil {
		fmt.Println("no such function")
		os.Exit(2)
	}
	res := p.Explore(*fn, f, nil, opts)
	fmt.Printf("paths=%d done=%d killed=%d panicked=%d failed=%d forks=%d steps=%d obligations=%d discharged=%d wall=%.2fs\n",
		res.Paths, res.Done, res.Killed, res.Panicked, res.Failed, res.Forks, res.Steps, res.Obligations, res.Discharged, res.Wall.Seconds())
	fmt.Printf("solver: %+v\n", res.Solver)
	fmt.Println("reached:", res.Reached)
	for _, s := range res.Inconclusive {
		fmt.Println("INCONCLUSIVE:", s)
	}
	for _, v := range res.Violations {
		fmt.Printf("VIOLATION kind=%s label=%q msg=%q model=%v choices=%v\n", v.Kind, v.Label, v.Msg, v.Model, v.Choices)
	}
	for _, l := range res.Logs {
		fmt.Println("LOG", l.Status, l.Choices, l.Err)
		for _, x := range l.Lines {
			fmt.Println("   ", x)
		}
	}
}

func cmdConform(args []string) {
	fs := flag.NewFlagSet("conform", flag.ExitOnError)
	repo := fs.String("repo", "/repo", "")
	hdir := fs.String("harness", verifDir+"/harness", "")
	tags := fs.String("tags", "", "")
	pkg := fs.String("pkg", "ecs", "")
	fn := fs.String("fn", "", "")
	fs.Parse(args)
	p, err := sx.Load(*repo, *hdir, *tags, "engine")
	if err != nil {
		fmt.Println("load error:", err)
		os.Exit(2)
	}
	opts := sx.DefaultOptions()
	opts.Workers = 1
	opts.KeepLogs = true
	if err := p.InitProgram(opts); err != nil {
		fmt.Println("init error:", err)
		os.Exit(2)
	}
	nat := sx.NewNative(*repo, *hdir, fmt.Sprintf("%s/.work/c%d", verifDir, os.Getpid()))
	bin, err := nat.Build(*pkg, *tags, false)
	if err != nil {
		fmt.Println(err)
		os.Exit(2)
	}
	bad := 0
	for _, name := range strings.Split(*fn, ",") {
		f := p.Func(*pkg, name)
		if f == nil {
			fmt.Println("no such function", name)
			os.Exit(2)
		}
		res := p.Explore(name, f, nil, opts)
		no, err := nat.Run(bin, name, "", 1)
		if err != nil {
			fmt.Println(err)
			os.Exit(2)
		}
		if len(res.Logs) != 1 || res.Logs[0].Status != sx.Done {
			fmt.Printf("%s: engine did not finish on a single path: paths=%d %v\n", name, len(res.Logs), res.Inconclusive)
			for _, l := range res.Logs {
				fmt.Println("  ", l.Status, l.Err)
			}
			bad++
			continue
		}
		el := res.Logs[0].Lines
		ok := no.Outcome == "VERIF-OK" && len(el) == len(no.Logs)
		for i := 0; ok && i < len(el); i++ {
			if el[i] != no.Logs[i] {
				ok = false
			}
		}
		if !ok {
			bad++
			fmt.Printf("%s: MISMATCH native outcome=%s engine lines=%d native lines=%d\n", name, no.Outcome, len(el), len(no.Logs))
			for i := 0; i < len(el) || i < len(no.Logs); i++ {
				a, b := "", ""
				if i < len(el) {
					a = el[i]
				}
				if i < len(no.Logs) {
					b = no.Logs[i]
				}
				m := " "
				if a != b {
					m = "!"
				}
				fmt.Printf("  %s %-40s %s\n", m, a, b)
			}
		} else {
			fmt.Printf("%s: conform OK (%d log lines, %d steps)\n", name, len(el), res.Steps)
		}
	}
	if bad > 0 {
		os.Exit(2)
	}
}
